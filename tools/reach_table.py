#!/usr/bin/env python3
"""Prints the 'measured reach and cost' table of DESIGN.md section 16 from evidence/*.json."""
import json, glob, os
ROOT = os.path.dirname(os.path.dirname(os.path.abspath(__file__)))
print("| property | legs | simulated runs | wall s (incl. build check) | runs per hour (sum of legs) | simulated seconds | fault kinds fired | reach probes > 0 | runs excluded (outside synchrony) | full-stack runs |")
print("|---|---|---|---|---|---|---|---|---|---|")
for f in sorted(glob.glob(os.path.join(ROOT, "evidence", "C??.json"))):
    d = json.load(open(f)); c = d["coverage"]
    def flat(x):
        out = {}
        for k, v in x.items():
            if isinstance(v, dict):
                for k2, v2 in v.items(): out[k2] = out.get(k2, 0) + v2
            else: out[k] = out.get(k, 0) + v
        return out
    ff = flat(c.get("faults_fired", {})); rp = flat(c.get("reach_probes", {}))
    print("| %s | %d | %d | %d | %.1e | %d | %d | %d | %d | %d |" % (d["property_id"], len(c.get("legs", [])), c.get("simulated_runs", c.get("evaluations", 0)),
        round(d.get("wall_s", 0)), c.get("runs_per_hour", 0), c.get("simulated_seconds_covered", 0),
        sum(1 for v in ff.values() if v), sum(1 for v in rp.values() if v), c.get("excluded_runs_outside_assumptions", 0), rp.get("fullstack_runs", 0)))
