#!/bin/bash
# usage: tools/seeded_eval.sh <seed-id> <property> <agent-out-dir> [extra check args]
# 1. copies the seeded change to /verif/seeded/<id>/   2. confirms the demonstration (passes on the pristine tree,
# fails with the change) in scratch trees under /tmp   3. applies the change to /repo, runs the quick check of the
# property, reverts.  Prints a summary line.
id="$1"; prop="$2"; out="$3"; shift 3
cd /verif
mkdir -p seeded/$id
[ $out -ef seeded/$id ] || cp $out/patch.diff seeded/$id/patch.diff
for f in $(cd $out && find . -maxdepth 1 -type f -size -300k ! -name patch.diff ! -perm -u+x -o -maxdepth 1 -type f -name "*.sh" | sed 's#^\./##'); do [ $out -ef seeded/$id ] || cp $out/$f seeded/$id/; done
rm -rf /tmp/seedtrees/$id; mkdir -p /tmp/seedtrees/$id/pristine /tmp/seedtrees/$id/mut
git -C /repo archive HEAD | tar -x -C /tmp/seedtrees/$id/pristine
git -C /repo archive HEAD | tar -x -C /tmp/seedtrees/$id/mut
cp /repo/libTMCG_config.h /tmp/seedtrees/$id/pristine/; cp /repo/libTMCG_config.h /tmp/seedtrees/$id/mut/
( cd /tmp/seedtrees/$id/mut && patch -p1 -s < /verif/seeded/$id/patch.diff ) || { echo "SEEDED $id: patch does not apply"; exit 3; }
demo_p="n/a"; demo_m="n/a"
mkdir -p /tmp/agent_$(echo ${id#S-} | cut -d- -f1)
if [ -f seeded/$id/build.sh ]; then
  ( cd seeded/$id && bash ./build.sh /tmp/seedtrees/$id/pristine /tmp/seedtrees/$id/bd_p > /tmp/seedtrees/$id/build_p.log 2>&1 )
  ( cd seeded/$id && bash ./build.sh /tmp/seedtrees/$id/mut /tmp/seedtrees/$id/bd_m > /tmp/seedtrees/$id/build_m.log 2>&1 )
  dp=$(ls /tmp/seedtrees/$id/bd_p/demo* 2>/dev/null | grep -v "\.o$" | head -1); dm=$(ls /tmp/seedtrees/$id/bd_m/demo* 2>/dev/null | grep -v "\.o$" | head -1)
  if [ -n "$dp" ] && [ -n "$dm" ]; then
    ( timeout 600 $dp > /tmp/seedtrees/$id/run_p.log 2>&1 ); demo_p=$?
    ( timeout 600 $dm > /tmp/seedtrees/$id/run_m.log 2>&1 ); demo_m=$?
  elif [ -f seeded/$id/run.sh ]; then
    # the agent's own runner: builds against the tree given as $1 and runs the demonstration
    ( cd seeded/$id && mkdir -p /tmp/agent_$(echo ${id#S-} | cut -d- -f1) && timeout 900 sh ./run.sh /tmp/seedtrees/$id/pristine > /tmp/seedtrees/$id/run_p.log 2>&1 ); demo_p=$?
    ( cd seeded/$id && timeout 900 sh ./run.sh /tmp/seedtrees/$id/mut > /tmp/seedtrees/$id/run_m.log 2>&1 ); demo_m=$?
  fi
fi
git -C /repo apply /verif/seeded/$id/patch.diff || { echo "SEEDED $id: cannot apply to /repo"; exit 3; }
t0=$(date +%s)
./check $prop --tier quick "$@" > /tmp/seedtrees/$id/check.log 2>&1; rc=$?
t1=$(date +%s)
git -C /repo checkout -- .
viol=$(grep -E "^VIOLATION" /tmp/seedtrees/$id/check.log | head -3 | cut -c1-220)
echo "SEEDED $id prop=$prop demo_pristine_rc=$demo_p demo_mutated_rc=$demo_m check_rc=$rc secs=$((t1-t0))"
echo "$viol"
