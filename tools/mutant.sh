#!/bin/bash
# usage: tools/mutant.sh <name> <file-in-repo> <python-regex-old> <new> -- <check command...>
# applies one textual mutation to /repo (must match exactly once), runs the command, reverts.
name="$1"; file="$2"; old="$3"; new="$4"; shift 5
cd /verif
python3 - "$file" "$old" "$new" <<'PY' || { echo "MUTANT $name: pattern problem"; exit 9; }
import sys,re
f,old,new=sys.argv[1:4]
s=open('/repo/'+f).read()
n=len(re.findall(old,s))
if n!=1:
    print("pattern matches",n,"times"); sys.exit(1)
new=new.encode().decode('unicode_escape')
s=re.sub(old,lambda m:new,s,count=1)
open('/repo/'+f,'w').write(s)
PY
out=$("$@" 2>&1); rc=$?
git -C /repo checkout -- .
echo "MUTANT $name: rc=$rc $(echo "$out" | grep -E '^VIOLATION|BUILD-FAILED|CHECK-BROKEN' | head -2 | cut -c1-260)"
