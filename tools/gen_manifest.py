#!/usr/bin/env python3
"""Single source of truth for checks.json and MANIFEST.json (run after editing)."""
import json, os
ROOT = os.path.dirname(os.path.dirname(os.path.abspath(__file__)))

TECH = "deterministic simulation with fault injection"

def leg(scen, flav, runs, workers, det, rt, maxs=None, extra=None):
    a = ["--runs", runs, "--workers", workers, "--det", det, "--run-timeout", rt]
    if maxs: a += ["--max-seconds", maxs]
    if extra: a += extra
    return {"scenario": scen, "flavour": flav, "args": a}

CARDS_ASSUME = [
 "the cards scenario drives the discrete-log card encoding (Schnorr group with random or canonical g, quadratic-residue group); the Schindelhauer quadratic-residuosity encoding is driven by the qrcards scenario: C01/C02 with masking chains, shuffles and openings (own secret key and verified bits of the other players), C03/C04/C05 with the interactive proofs of that encoding (card-secret opening proof, masking proof, cut-and-choose shuffle/rotation proof) between two tasks; false statements there use security parameter 32 (a chance acceptance, probability 2^-32 per session, would be reported)",
 "small groups (384..768-bit p, 160..200-bit q) and challenge lengths 16..64 so that thousands of sessions fit in a check; the library takes all sizes at run time",
 "false statements are realised as an edited public input on the verifier's side (the prover runs the unmodified library code on the true statement), never as prover-side calls that would trip the library's own asserts",
 "asserted transcript mutations: value+1, 0, swap with the next line of the same direction, +1 on an embedded number of a structured line, and value+q / value+p on every numeric prover->verifier line of every proof kind (an exponent plus q is out of range, an exponent plus p another residue, an element plus p out of range, an element plus q another element); the negative representative value-q is recorded, not asserted",
]

P = {}
P["C01"] = dict(level="exploration", design="DESIGN.md 7.7", assumptions=CARDS_ASSUME + ["the 'missing share' clause is asserted for cards that were masked at least once (an open card has c_1 = 1 and is public)"],
 quick=[leg("cards","plain",5000,16,16,120), leg("cards","asan",700,10,8,240), leg("qrcards","plain",8000,16,16,120,None,["--noproofs","1"]), leg("qrcards","asan",2000,10,8,120,None,["--noproofs","1"]), leg("qrcards","plain",3000,16,16,120)],
 thorough=[leg("cards","plain",400000,16,128,120,1000), leg("cards","asan",20000,10,32,240,500), leg("qrcards","plain",800000,16,128,120,400,["--noproofs","1"]), leg("qrcards","asan",60000,10,32,120,300,["--noproofs","1"]), leg("qrcards","plain",300000,16,128,120,300)],
 text="Seeded k-player tables (k=2..7, 1..7 type bits, three group kinds, timing protection on/off) run masking chains of any length by any players and open cards with the real share protocol between player instances; the opened type is compared with a reference model, and openings with one contributor missing must give the invalid-type sentinel.",
 note="trusted: harness reference model (vector of types), libgmp; opening shares travel over string streams (the decryption proof is one-way)")
P["C02"] = dict(level="exploration", design="DESIGN.md 7.7", assumptions=CARDS_ASSUME + ["all n! permutations are not enumerated; sizes 1..24 sampled, chains of shuffles by several players"],
 quick=[leg("cards","plain",5000,16,16,120), leg("cards","asan",700,10,8,240), leg("qrcards","plain",8000,16,16,120,None,["--noproofs","1"]), leg("qrcards","asan",2000,10,8,120,None,["--noproofs","1"]), leg("qrcards","plain",3000,16,16,120)],
 thorough=[leg("cards","plain",400000,16,128,120,1000), leg("cards","asan",20000,10,32,240,500), leg("qrcards","plain",800000,16,128,120,400,["--noproofs","1"]), leg("qrcards","asan",60000,10,32,120,300,["--noproofs","1"]), leg("qrcards","plain",300000,16,128,120,300)],
 text="Stacks with repeated types are shuffled and rotated by several players in sequence; the reference model applies the index vector of each stack secret and every card of the resulting stack is opened with the real protocol and compared; every generated secret is checked to be a bijection (a shift by exactly the reported offset for rotations) and a secret with a repeated index must be refused on import.",
 note="trusted: harness reference model, libgmp")
P["C03"] = dict(level="exploration", design="DESIGN.md 7.7", assumptions=CARDS_ASSUME + ["Rabin key validity proofs are not driven (pure function of a key); the coin-flipping sub-protocol is judged under C17 and runs inside the public-coin variants here"],
 quick=[leg("cards","plain",5000,16,16,120,None,["--nofaults","1"]), leg("cards","asan",700,10,8,240,None,["--nofaults","1"]), leg("qrcards","plain",3000,16,16,120,None,["--nofaults","1"]), leg("qrcards","asan",1000,10,8,240,None,["--nofaults","1"])],
 thorough=[leg("cards","plain",400000,16,128,120,1000,["--nofaults","1"]), leg("cards","asan",20000,10,32,240,500,["--nofaults","1"]), leg("qrcards","plain",300000,16,128,120,400,["--nofaults","1"]), leg("qrcards","asan",20000,10,32,120,300,["--nofaults","1"])],
 text="Fault-free configuration: every verifier entry point of the discrete-log encoding (key share interactive and public-coin, verifiable masking, re-masking, decryption share, cut-and-choose shuffle and rotation, Groth shuffle argument in interactive, public-coin and non-interactive form, rotation argument interactive and non-interactive) is driven by its matching prover between two tasks over a fragmenting stream pair, across swarm-varied players, type bits, kappa 0..12, challenge lengths, groups and stack sizes; every session must end with the verifier returning true. The schedule dimension is degenerate (blocking reads order the two tasks); the simulation contributes that every entry point is exercised over a real transport in many configurations.",
 note="trusted: the harness calls prover and verifier with matching arguments; libgmp/libgcrypt")
P["C04"] = dict(level="exploration", design="DESIGN.md 7.7", assumptions=CARDS_ASSUME + ["sigma-protocol, Groth and rotation arguments: soundness error <= 2^-16 for the smallest challenge length used - a false acceptance by chance would be reported as a violation; cut-and-choose: the oracle is exact (verifier coins are read from the wire or forced through the randomness seam)"],
 quick=[leg("cards","plain",5000,16,16,120), leg("cards","asan",700,10,8,240), leg("qrcards","plain",3000,16,16,120), leg("qrcards","asan",1000,10,8,240), leg("keygen","plain",6000,16,32,60)],
 thorough=[leg("cards","plain",400000,16,128,120,1000), leg("cards","asan",20000,10,32,240,500), leg("qrcards","plain",300000,16,128,120,400), leg("qrcards","asan",40000,10,32,240,300), leg("keygen","plain",500000,16,256,60,300)],
 text="Byzantine prover task: the honest prover code runs while the verifier holds a false statement - output stack with a card substituted, duplicated, dropped or re-typed, exchanged cards presented as a rotation, a non-cyclic permutation presented as a rotation, a mask that changes the type, a decryption share from a key that is not at the table, a key share multiplied by g - and every verifier must refuse. For cut-and-choose the acceptance must match the verifier's coin string exactly (accepted iff every challenge bit equals the one bit value the prover's commitments fit), and a harness prover that prepares for a guessed string is accepted for exactly that string with the verifier's coins forced through the randomness seam (kappa <= 8 quick, <= 16 thorough). Key-share proofs of the key-generation protocol (keygen leg): a key with the proof of another party, with an altered challenge or response, or a key of order 2q with a verifying proof is refused by every recipient, also when the same key value is already stored there.",
 note="trusted: harness construction of false statements; the coin seam (libgcrypt random entry points wrapped at link time)")
P["C05"] = dict(level="fault_enumeration", design="DESIGN.md 7.7", assumptions=CARDS_ASSUME + ["changes of the group or the common key as public input are not injected (the instances precompute tables from them); card components of both stacks, masked values and keys are"],
 quick=[leg("cards","plain",5000,16,16,120), leg("cards","asan",700,10,8,240), leg("qrcards","plain",3000,16,16,120), leg("qrcards","asan",1000,10,8,240)],
 thorough=[leg("cards","plain",400000,16,128,120,1000), leg("cards","asan",20000,10,32,240,500), leg("qrcards","plain",300000,16,128,120,400), leg("qrcards","asan",40000,10,32,240,300)],
 text="Relaying man in the middle: each session is first run clean to learn its transcript, then replayed from the same coins with exactly one line altered (every prover->verifier line and every verifier->prover challenge; mutations +1, 0, swap with neighbour, +1 inside a structured line, value+q/value+p where the code states the range), or with one component of the verifier's public input changed; the verifier must not return true. Positions and mutations are drawn by the seed, not enumerated exhaustively per session.",
 note="trusted: the transcript schema is not assumed - mutations are chosen so that a wrong guess of a field's type cannot produce a false alarm")
P["C08"] = dict(level="exploration", design="DESIGN.md 7.6", assumptions=["duplicate delivery of an already accepted contribution is not injected: the statement is silent about it and the code multiplies twice",
   "a contribution is one three-line message (key, challenge, response) delivered whole or cut after a field"],
 quick=[leg("keygen","plain",6000,16,32,60), leg("keygen","asan",1500,10,16,60)],
 thorough=[leg("keygen","plain",500000,16,256,60,600), leg("keygen","asan",40000,10,64,60,300)],
 text="k=2..8 real key-generation instances built from one published group (Schnorr group with random or canonical g, quadratic-residue group); the scheduler chooses each recipient's processing order - all (k-1)! orders at one recipient are enumerated for k<=5 (6 in the thorough tier) - interleaved with removals of accepted and of unknown contributions and with malformed contributions (every field +1, 0, missing, key outside the group, key+p, response+q, another party's proof, and a key of order 2q carrying a proof of knowledge that verifies); after every operation the recipient's common key must equal the harness-computed product of its own and the accepted keys, refused operations must leave it unchanged, and parties that accepted the same set must agree.",
 note="trusted: harness product model (libgmp)")
P["C12"] = dict(level="fault_enumeration", design="DESIGN.md 7.8", assumptions=["scope: every receiving side reachable in the simulations (verifiers of all proof kinds, channel receivers, broadcast, OT, coin flip) and the importers / stream constructors fed with simulation-produced artefacts under truncation at every offset and single-byte corruption; arbitrary byte strings unrelated to a valid artefact are outside what this family generates",
   "a crash, sanitizer report, abort, uncaught non-standard exception or hang on a receiving side is a violation; a negative result or a std::exception is a clean refusal",
   "sanitizer build reduces TMCG_MAX_STACK_CHARS to 4 MB (-D for the scenario sources, a shadowed libTMCG_config.h for the library sources, which define it unconditionally) to keep the 671 MB line buffer of every stack import from dominating the run time"],
 quick=[leg("cards","asan",900,10,8,240), leg("torn","asan",0,10,0,240), leg("aio","asan",500,10,8,120), leg("rbc","asan",800,10,8,60), leg("ot","asan",600,10,8,60), leg("flip2","asan",600,10,8,60), leg("pgp","asan",12000,10,32,120), leg("keygen","asan",800,10,8,60), leg("qrcards","asan",1000,10,8,240)],
 thorough=[leg("cards","asan",40000,10,32,240,900), leg("torn","asan",0,10,0,1200,None,["--deep","1"]), leg("aio","asan",8000,10,16,120,300), leg("rbc","asan",20000,10,16,60,300), leg("ot","asan",10000,10,16,60,120), leg("flip2","asan",10000,10,16,60,120), leg("pgp","asan",600000,10,64,120,400), leg("keygen","asan",20000,10,16,60,120), leg("qrcards","asan",40000,10,16,240,200)],
 text="All scenarios are run in the ASan+UBSan build (library built without NDEBUG, as shipped, so a reachable assert is a kill); the cards scenario adds truncation of the transcript inside any prover line, well-formed stack secrets of another size, line swaps and mutations; the pgp scenario feeds the OpenPGP parsers with emitted packets whose bodies are truncated at every offset with re-encoded lengths, bit-flipped and cut; the torn scenario re-imports every artefact kind (cards, secrets, stacks, stack secrets, keys, groups, commitment parameters, persisted protocol states, non-interactive proofs) cut at every byte offset and with single bytes flipped. Any crash, sanitizer report, abort or hang attributed to a seed is a violation.",
 note="trusted: sanitizers; not a general fuzzer")
P["C13"] = dict(level="exploration", design="DESIGN.md 7.1", assumptions=[
  "receive shapes follow send shapes per link (single integers or arrays of one length), as every in-tree user does",
  "a link whose Send returned false (half-written frame) is not used again; nothing is asserted on it beyond integrity",
  "tampering that hits only the unauthenticated IV bytes: delivered values form an in-order sub-sequence of the sent ones (the statement promises no more); chunked mode under tampering: integrity only; without authentication nothing is asserted under tampering",
  "liveness budget: 12*(pending+n^2+4) zero-time-out Receive calls per receiver once all bytes are visible",
  "full-stack legs (dkg --fullstack): aiounicast_select is the transport under the real reliable broadcast and the real multi-party protocols (3..7 parties, two channel sets, authenticated / encrypted / chunked per run); only benign byte faults there (latency, writes arriving in two pieces, short reads and writes, EINTR); oracle: every integer an endpoint returns is the head of the per-link model of accepted integers, and a sender-specific receive never times out while an accepted value has been completely visible for longer than its time-out"],
 quick=[leg("aio","plain",5000,16,32,60), leg("aio","asan",1200,10,16,120), leg("dkg","plain",96,16,4,120,None,["--fullstack","1"]), leg("dkg","asan",20,10,2,240,None,["--fullstack","1"])],
 thorough=[leg("aio","plain",150000,16,256,60,1100), leg("aio","asan",20000,10,64,120,600), leg("dkg","plain",20000,16,16,120,600,["--fullstack","1"]), leg("dkg","asan",2000,10,4,240,300,["--fullstack","1"])],
 text="Seeded search over byte-stream fragmentations (release-k-bytes ops: reads ending inside the IV, inside the MAC tag, exactly at the newline; coalesced frames), scripted short reads/writes, EINTR/EAGAIN (incl. the sleep(1) back-off of the polling variant), EOF after an arbitrary prefix, byte flips/insertions/deletions in IV, line and tag, frame drop/dup/swap/replay, across {select,nonblock} x {auth} x {enc} x {chunked} x {single,array} and all three receive schedulers, against a FIFO reference model per link; bounded liveness after all bytes are visible. Both real channel classes run unmodified over simulated descriptors.",
 note="trusted: SimFd as a model of kernel pipes/select, libgcrypt; the oracle is deliberately narrowed for IV-only tampering and chunked mode as the statement allows")
P["C14"] = dict(level="exploration", design="DESIGN.md 7.2", assumptions=[
  "links between honest parties are authenticated FIFO streams of integers (what aiounicast provides); the in-memory SimUnicast stands in for aiounicast_select, except in one run of 16 (one of 96 in the sanitizer flavour), where the library's aiounicast_select frames every integer over simulated descriptors and a hand-over makes the bytes of one unit visible (for one receive call possibly only up to an arbitrary byte); there the per-link model of the byte layer is checked as well (class fullstack_channel, property C13)",
  "at most t < n/3 parties are Byzantine; they can send anything on their own links but cannot forge honest links",
  "liveness is judged only in the drain phase (partitions healed, no further injections, every message handed over); runs in which a Byzantine sender triggered a retrieve storm (> 1500 l-retrieve requests) keep their safety checks and are not judged for liveness",
  "a caller uses one of Deliver/DeliverFrom per channel visit; channel names passed to setID are fresh, re-entry uses recoverID",
  "with fifo_skip > 0 only agreement, integrity and channel isolation are asserted (the implementation gives up order and completeness there by design)"],
 quick=[leg("rbc","plain",30000,16,64,30), leg("rbc","asan",2500,10,16,60)],
 thorough=[leg("rbc","plain",2000000,16,512,30,1200), leg("rbc","asan",60000,10,64,60,600)],
 text="Seeded search over message hand-over interleavings, Byzantine behaviours (equivocation, forged echo/ready/answer for own-slot payload variants incl. floods, wrong sender, replay, malformed and short tuples, selective silence), partitions and channel-ID scripts (nested, left and recovered IDs) on the real broadcast implementation with n=2..7; agreement, integrity, FIFO order and channel isolation are checked at every delivery, validity and totality after a fault-free drain phase. Sampling, not enumeration.",
 note="trusted: the harness oracle (payload attribution), SimUnicast as a faithful model of an authenticated FIFO integer stream, libgmp/libgcrypt; the aiounicast_select byte layer is judged separately (C13)")
SYNC = ["synchrony assumption of the protocols: honest<->honest latency <= 1 s and honest clock skew <= 3 s, private-channel time-out 3..5 s, broadcast time-out 60..90 s > 3*f*T_u + 10 s; a run in which an honest party nevertheless timed out on another honest party (drift caused by a selectively silent faulty party) is counted as excluded and not judged",
   "at most t <= (n-1)/3 faulty parties (the same t is used for the reliable broadcast, as in the test-suite): the library's own simulate_faulty_behaviour switch, silence from the start, crash after k messages, links that drop or alter messages per recipient",
   "transport: SimUnicast (in-memory integer links) in seven of eight runs; in one of eight the library's own aiounicast_select over simulated descriptors ('full stack': authenticated / encrypted / chunked per run, bytes delayed, split, read and written short, select interrupted) carries both channel sets",
   "small groups (512..768-bit p, 160..200-bit q); messages to sign are distinct within a run (the channel ID of a signing run contains the message); a Pedersen-VSS secret 0 is avoided for t = 0 (observation O2)",
   "one open finding is recorded in known_findings.json (F16: PedersenVSS::Reconstruct with n = 2t+1 and t deviating share holders - printed as KNOWN-FINDING, class reconstruct_failed_dealer_holds_no_share, nothing else is covered by it); all other entries are fixed entries, which suppress nothing"]
P["C15"] = dict(level="exploration", design="DESIGN.md 7.3", assumptions=SYNC,
 quick=[leg("dkg","plain",2500,16,16,600), leg("dkg","asan",200,10,4,900)],
 thorough=[leg("dkg","plain",150000,16,64,600,1200), leg("dkg","asan",5000,10,16,900,600)],
 text="Each party is a task running the library's blocking protocol calls (Pedersen VSS with honest or faulty dealer incl. Reconstruct, New-DKG, Canetti et al. DKG with share refresh, DSS key generation) over the real reliable broadcast and two simulated unicast nets, with the Sync barriers the in-tree users place between phases; n=3..7, up to t faulty parties of four kinds, latencies, one slow party, clock skew. After the run the harness collects the public members of every honest instance and checks with its own GMP code: all honest calls succeeded, QUAL and y agree, g^{x_i} equals the verification key every honest party holds, every (t+1)-subset of honest shares interpolates to one x with g^x = y, an honest dealer's secret is reconstructed everywhere, a faulty dealer is rejected by all or accepted by all with consistent shares, a refresh changes shares but neither secret nor key; bounded liveness: every honest party returns.",
 note="trusted: harness interpolation/exponentiation (libgmp), SimUnicast; exclusion rule for runs outside the synchrony assumption")
P["C16"] = dict(level="exploration", design="DESIGN.md 7.3", assumptions=SYNC + ["not driven: signing and refreshing with a reduced signer set (index maps idx2dkg/dkg2idx with fresh channel objects): every signature is made by the full set, of which up to t parties deviate (seeded change S-C16e is missed for this reason)", "the library verifiers are probed with the produced signature and its altered / out-of-range copies (s+1, c+1 resp. r+1, s+q, r+q, 0, q); for the Schnorr verifier only +1 copies are asserted (it states no range condition)"],
 quick=[leg("dkg","plain",400,16,8,600), leg("dkg","asan",40,10,4,900)],
 thorough=[leg("dkg","plain",40000,16,32,600,1200), leg("dkg","asan",1500,10,8,900,600)],
 text="Threshold Schnorr (New-DKG based) and threshold DSS runs between party tasks with up to t faulty signers, messages 0, 1, q-1, q and random, before and after a share refresh: whenever Sign returns true at an honest party the signature must satisfy the textbook Schnorr resp. DSA equation evaluated by harness code under the jointly generated key, all honest parties must hold the same signature, and the library's own verifier must accept it and refuse the altered and out-of-range copies.",
 note="trusted: harness evaluation of the textbook equations (libgmp) with the library's hash function")
P["C11"] = dict(level="exploration", design="DESIGN.md 7.10", assumptions=["scope: (i) persisted protocol state of PedersenVSS, New-DKG, Canetti et al. DKG and DSS at the phase boundaries reached in simulated multi-party histories (after Share / Generate / Refresh, incl. states with disqualified parties and publicly adjusted shares): PublishState -> destroy -> stream constructor -> PublishState must give the identical text and the run continues on the restored object; (ii) every card, card secret, stack, stack secret, group and shuffle-argument parameter set produced in the table simulations is exported, imported into a fresh object and exported again",
   "cards and card secrets of the quadratic-residuosity encoding are also re-imported into used objects of other dimensions (players 1..6, type bits 1..8); a stand-alone Joint-RVSS with sharing degree t' != t is restarted as well", "not decided: crafted boundary integers (zero, negative, maximal length), dimensions not reached by the simulations - pure input quantification"],
 quick=[leg("dkg","plain",700,16,8,600,None,["--restartall","1"]), leg("cards","plain",3000,16,8,120), leg("qrcards","plain",3000,16,8,120)],
 thorough=[leg("dkg","plain",80000,16,32,600,900,["--restartall","1"]), leg("cards","plain",300000,16,64,120,600), leg("qrcards","plain",300000,16,64,120,300)],
 text="Restart monitor inside the multi-party simulations (crash = destroy the protocol object at a phase boundary, only the PublishState text survives, restart = stream constructor; the restored party continues the protocol, e.g. signs with the restored key, and the C15/C16 oracles judge the outcome) plus a wire monitor in the table simulations (every exported object is re-imported into a fresh object, compared with == where the type has it, and re-exported).",
 note="trusted: text comparison; the restored object's behaviour is judged by the C15/C16 oracles of the same run")
P["C17"] = dict(level="exploration", design="DESIGN.md 7.4", assumptions=["two-party protocol between two tasks; multi-party protocol over the real reliable broadcast with SimUnicast (or, one run in eight, the library's aiounicast_select over simulated descriptors) underneath, synchrony as for C15; thresholds up to (n-1)/2 with up to t deviating parties, of which at most (n-1)/3 deviate below the broadcast"],
 quick=[leg("flip2","plain",6000,16,32,60), leg("flip2","asan",1500,10,16,60), leg("dkg","plain",1500,16,8,600), leg("dkg","asan",150,10,4,900)],
 thorough=[leg("flip2","plain",400000,16,256,60,600), leg("flip2","asan",40000,10,64,60,300), leg("dkg","plain",100000,16,32,600,900), leg("dkg","asan",4000,10,8,900,400)],
 text="Two-party coin flip in both role assignments over a fragmenting stream pair: both parties must output the same coin, equal to the sum of the two opened shares read off the wire; the recorded history must show that no opening line was written before the peer's commitment line had been completely received; a relay that alters or drops any of the three lines of either direction, a peer that withholds its commitment (the honest party must never open), opens to another value, uses wrong randomness, sends value+q, commits outside the group or chooses its opening after seeing the honest one, and the library's own faulty switch must all lead to rejection. Multi-party flip (n=3..7 over the real reliable broadcast, up to t faulty parties): all honest parties must return the same coin.",
 note="trusted: harness wire-format peer; history sequence numbers stamped by the simulator")
P["C18"] = dict(level="exploration", design="DESIGN.md 7.5", assumptions=["messages are members of the order-q subgroup (the protocol's message space)"],
 quick=[leg("ot","plain",8000,16,32,60), leg("ot","asan",1500,10,16,60)],
 thorough=[leg("ot","plain",600000,16,256,60,600), leg("ot","asan",40000,10,64,60,300)],
 text="All three sender/chooser pairs between two tasks, N=2..64, every index reachable by the seed, message vectors incl. the identity and repeated messages: the chooser's output must equal M[sigma]; the chooser's secrets are recomputed from a copy of its coin stream (verified against x=g^a, y=g^b on the wire) and must not open any other ciphertext; blinding values must be fresh per message; a scripted first move with coinciding, non-member, 0, p or >=p elements and a relay replacing a first-move line must make the sender refuse without emitting ciphertexts.",
 note="trusted: harness recomputation of the chooser's view")

P["C20"] = dict(level="fault_enumeration", design="DESIGN.md 7.9", assumptions=["scope: clock-dependent validity of detached document signatures under skew and jumps of the verifier's clock; tamper / truncate / re-order / drop faults on artefacts (signatures, key blocks with certification and subkey binding, SEIPD and AEAD messages, PKESK packets, stored private key blocks, ASCII armor, documents in files) between a signer-encryptor node and a verifier-decryptor node; fixed RSA-2048 / DSA-2048 / ECDSA P-256 / Ed25519 signing keys and RSA / ElGamal-2048 / ECDH P-256 encryption keys; CFB+MDC and AEAD (OCB, EAX) with AES-256",
   "GnuPG cross-check: document signatures only, with the gpgv binary of the image as a child process (skipped and counted when absent); not simulated, its outcome is a function of the seeded artefacts",
   "not driven: revocations, user attributes, key expiry through self-signatures, compressed data, passphrase-encrypted messages (the library has no SKESK encoder), V5 keys and signatures",
   "'the signature value' means the left-16 octets and the MPI payloads; a flipped bit in an MPI bit count or in the unhashed sub-packet area is recorded, not asserted",
   "a literal data packet without data is refused by the library's decoder by design (observation O3): message plaintexts have at least one octet",
   "DSA/ECDSA nonces come from inside libgcrypt (no seam): only outcomes enter the fingerprint, position-dependent record-only faults are used with RSA signatures only"],
 quick=[leg("pgp","plain",40000,16,64,60), leg("pgp","asan",20000,10,64,120)],
 thorough=[leg("pgp","plain",3000000,16,512,60,600), leg("pgp","asan",600000,10,256,120,600)],
 text="Two nodes with their own simulated clocks: the signer/encryptor emits artefacts with the library's encoders, the artefact channel applies at most one fault, the verifier/decryptor parses and checks. Signatures: the verifier's clock is placed on every boundary of the validity rules (expiry-1/expiry/expiry+1, 25 h +-1 s in the future, signature older than its key, clock jump between validity and integrity check) and CheckValidity is compared with a reference model of the rules; a bit flipped in any hashed field, in the signature value, in the document, or a check against another key must not verify; the signature-packet body is truncated at every offset with the length re-encoded. Messages: SEIPD+MDC and AEAD (two modes, three chunk sizes, lengths around chunk boundaries) must decrypt to the plaintext, and a flipped ciphertext or tag bit, truncation, dropped tag, exchanged or removed chunks, altered associated data or nonce, a wrong session key and an unprotected (SED) packet must make decryption fail. Added later: whole artefacts split into packets and damaged structurally (body truncated / extended with re-encoded length at every offset, packets dropped, duplicated, exchanged, key blocks recomposed from their own packets), the same behind ASCII armor with damaged text, session keys encrypted to RSA / ElGamal / ECDH keys, private key blocks stored under a passphrase, documents in files with damaged files, a sub-packet appended to the unhashed area, and gpgv as a second verifier.",
 note="trusted: reference model of the validity rules; libgcrypt; gpgv for the cross-check")

def main():
    checks = {}
    man_checks = []
    for pid in sorted(P):
        d = P[pid]
        checks[pid] = {"level": d["level"], "assumptions": d["assumptions"], "quick": d["quick"], "thorough": d["thorough"]}
        man_checks.append({
          "property_id": pid, "quick_cmd": "./check %s --tier quick" % pid, "thorough_cmd": "./check %s --tier thorough" % pid,
          "evidence_file": "evidence/%s.json" % pid, "replay_cmd_template": "./check --replay {path}", "engine": "tmcgsim",
          "level_claimed": {"category": d["level"], "text": d["text"], "design_ref": d["design"]},
          "level_note": d["note"],
          "technique": TECH + " (seeded schedule/fault search over simulated transports, reference-model and history oracles, minimised replay files)"})
    json.dump({"checks": checks}, open(os.path.join(ROOT, "checks.json"), "w"), indent=1)
    NA = [
      ("C06", "group/element validation is a predicate of one parameter set; no schedule, clock, transport or restart changes its value (input quantification, not simulation)"),
      ("C07", "a statement about a distribution over the entropy source, which the simulator replaces; there is no interleaving, fault or history in it"),
      ("C09", "arithmetic primitives are pure functions of their operands"),
      ("C10", "Rabin key sign/verify/encrypt/decrypt/check are pure functions of strings; no protocol, clock or stream is involved"),
      ("C19", "conformance of pure encoders against an independent reference is differential testing; there is no nondeterminism to own"),
    ]
    pending = [p for p in ["C%02d" % i for i in range(1, 21)] if p not in P and p not in [n[0] for n in NA]]
    man = {
      "version": 1,
      "setup_cmd": "make -s -j16 all",
      "hooks": {
        "guard": "LIBTMCG_VERIF_SIM",
        "enable": "no source hook is needed: the harness compiles /repo/src/*.cc itself (make; -DLIBTMCG_VERIF_SIM is passed but no guarded code exists) and owns every seam at link time (-Wl,--wrap=time,sleep,read,write,select,fcntl,gcry_randomize,gcry_create_nonce,gcry_mpi_randomize) or by subclassing aiounicast / std::streambuf",
        "baseline_off_cmd": "cd /repo && make -k check",
        "source_commits": [],
        "add_only": True},
      "engines": [{"name": "tmcgsim", "path": "sim/", "serves_properties": sorted(P),
        "kind_free_text": "deterministic simulator: seeded PRNG tree, discrete-event clock, baton-scheduled tasks, in-memory transports (SimUnicast, SimFd, SimStreambuf), fault injection, history fingerprint, ddmin minimisation, replay gate"}],
      "checks": man_checks,
      "not_applicable": [{"property_id": a, "reason": b} for a, b in NA] +
                        [{"property_id": p, "reason": "pending: scenario not finished yet in this session (see DESIGN.md)"} for p in pending],
      "notes": "Genuine defects found and repaired are listed in known_findings.json (status fixed; they suppress nothing); F16 is recorded as open there and in DESIGN.md section 13. DESIGN.md section 12 records which checks catch which seeded changes."
    }
    json.dump(man, open(os.path.join(ROOT, "MANIFEST.json"), "w"), indent=1)
    print("claimed:", sorted(P), "pending:", pending)

if __name__ == "__main__":
    main()
