// SimStreambuf: the std::istream/std::ostream transport of the two-party protocols, with a
// line-aware relay (man in the middle) between the two ends and full transcript recording.
#ifndef TMCGSIM_SIMSTREAM_HH
#define TMCGSIM_SIMSTREAM_HH

#include "sim.hh"
#include <iostream>
#include <streambuf>
#include <stdexcept>

namespace sim {

struct LineRec
{
	int dir;                 // 0: A->B, 1: B->A
	size_t idx;              // index among the lines of this direction (as written)
	std::string original;    // as written by the sender (without '\n')
	std::vector<std::string> forwarded; // what the relay passed on
	uint64_t t_written;      // history sequence number when the line was completed by the writer
	uint64_t t_received;     // ... when its last byte was handed to the reader (0: never)
};

class Duct
{
public:
	std::deque<char> vis;    // bytes readable by the receiving end
	std::string cur;         // partial line of the writer
	bool closed;             // no more data will come: reader gets EOF once vis is drained
	size_t lines;            // lines completed by the writer
	std::deque<std::pair<size_t, size_t> > ends; // (transcript index, bytes until its end) for t_received
	Duct() : closed(false), lines(0) {}
};

class Session;

class SimStreambuf : public std::streambuf
{
public:
	Session *ses; int side;  // side 0 = A, 1 = B
	char gbuf[4096];
	SimStreambuf() : ses(NULL), side(0) { setg(gbuf, gbuf, gbuf); }
protected:
	virtual int_type underflow();
	virtual int_type overflow(int_type c);
	virtual std::streamsize xsputn(const char *s, std::streamsize n);
	virtual int sync();
};

typedef std::function<void(int dir, size_t idx, const std::string &line, std::vector<std::string> &out)> RelayFn;

class Session
{
public:
	Sim &S;
	Duct d[2];               // d[0]: A->B, d[1]: B->A
	SimStreambuf sb[2];
	std::iostream ioA, ioB;  // each end reads and writes through its own streambuf
	std::vector<LineRec> transcript;
	RelayFn relay;           // default: pass through
	bool chunked;            // hand bytes to readers in seeded fragments
	size_t max_lines;        // guard against runaway writers
	int ret[2];              // 1 true, 0 false, -1 std::exception, -2 other exception, -9 not finished
	std::string exc[2];
	bool eof_injected;

	Session(Sim &S_in) : S(S_in), ioA(&sb[0]), ioB(&sb[1]), chunked(false), max_lines(200000), eof_injected(false)
	{
		sb[0].ses = this; sb[0].side = 0; sb[1].ses = this; sb[1].side = 1;
		ret[0] = ret[1] = -9;
	}

	// writer on 'side' completed a line
	void line_written(int side, const std::string &line)
	{
		int dir = side; // A writes direction 0, B writes direction 1
		LineRec r; r.dir = dir; r.idx = d[dir].lines++; r.original = line; r.t_received = 0;
		S.hist.add_str(H_LINE + dir, line);
		r.t_written = S.hist.n;
		std::vector<std::string> out;
		if (relay)
			relay(dir, r.idx, line, out);
		else
			out.push_back(line);
		r.forwarded = out;
		transcript.push_back(r);
		size_t ti = transcript.size() - 1;
		for (size_t i = 0; i < out.size(); i++)
		{
			for (size_t k = 0; k < out[i].size(); k++) d[dir].vis.push_back(out[i][k]);
			d[dir].vis.push_back('\n');
		}
		if (!out.empty())
		{
			size_t total = 0;
			for (size_t i = 0; i < out.size(); i++) total += out[i].size() + 1;
			d[dir].ends.push_back(std::make_pair(ti, total));
		}
	}
	void consumed(int dir, size_t nbytes)
	{
		while (nbytes > 0 && !d[dir].ends.empty())
		{
			std::pair<size_t, size_t> &e = d[dir].ends.front();
			size_t take = std::min(nbytes, e.second);
			e.second -= take; nbytes -= take;
			if (e.second == 0)
			{
				S.hist.add(H_LINE + 2 + dir, e.first);
				transcript[e.first].t_received = S.hist.n;
				d[dir].ends.pop_front();
			}
		}
	}
	void close_all() { d[0].closed = d[1].closed = true; }

	// run the two roles as tasks until both have returned
	void run(int partyA, int partyB, std::function<bool(std::istream &, std::ostream &)> fa,
		std::function<bool(std::istream &, std::ostream &)> fb)
	{
		Session *self = this;
		std::function<void()> prev_deadlock = S.on_deadlock;
		S.on_deadlock = [self]{ self->eof_injected = true; self->close_all(); };
		S.deadlocked = false;
		auto wrap = [self](int side, std::function<bool(std::istream &, std::ostream &)> f)
		{
			std::iostream &io = side ? self->ioB : self->ioA;
			try { self->ret[side] = f(io, io) ? 1 : 0; }
			catch (SimAbort &) { self->d[side].closed = true; throw; }
			catch (std::exception &e) { self->ret[side] = -1; self->exc[side] = e.what(); }
			catch (bool b) { self->ret[side] = b ? 1 : 0; self->exc[side] = "bool thrown"; }
			catch (...) { self->ret[side] = -2; }
			io.flush();
			self->d[side].closed = true; // this end writes nothing more
		};
		S.spawn("A", partyA, [wrap, fa]{ wrap(0, fa); });
		S.spawn("B", partyB, [wrap, fb]{ wrap(1, fb); });
		S.run();
		S.on_deadlock = prev_deadlock;
	}
};

inline SimStreambuf::int_type SimStreambuf::underflow()
{
	Duct &in = ses->d[1 - side]; // A reads direction 1, B reads direction 0
	Sim &S = ses->S;
	if (in.vis.empty() && !in.closed)
	{
		Duct *dp = &in;
		S.block_until([dp]{ return !dp->vis.empty() || dp->closed; });
	}
	if (in.vis.empty())
		return traits_type::eof();
	// hand out at most one line (never across a newline), optionally in seeded fragments
	size_t n = 0, lim = sizeof(gbuf);
	if (ses->chunked)
		lim = 1 + (size_t)S.net.below(24);
	while (n < lim && !in.vis.empty())
	{
		char c = in.vis.front(); in.vis.pop_front();
		gbuf[n++] = c;
		if (c == '\n') break;
	}
	ses->consumed(1 - side, n);
	setg(gbuf, gbuf, gbuf + n);
	return traits_type::to_int_type(gbuf[0]);
}

inline SimStreambuf::int_type SimStreambuf::overflow(int_type c)
{
	if (traits_type::eq_int_type(c, traits_type::eof()))
		return traits_type::not_eof(c);
	char ch = traits_type::to_char_type(c);
	xsputn(&ch, 1);
	return c;
}

inline std::streamsize SimStreambuf::xsputn(const char *s, std::streamsize n)
{
	Duct &out = ses->d[side];
	for (std::streamsize i = 0; i < n; i++)
	{
		if (s[i] == '\n')
		{
			std::string line; line.swap(out.cur);
			if (out.lines > ses->max_lines)
				throw std::runtime_error("tmcgsim: writer exceeded the line budget");
			ses->line_written(side, line);
		}
		else
			out.cur += s[i];
	}
	return n;
}

inline int SimStreambuf::sync()
{
	return 0;
}

} // namespace sim

#endif
