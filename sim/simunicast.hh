// SimUnicast: in-memory implementation of the abstract aiounicast interface.
// One Net object holds all directed links of one channel set (n parties); each party gets a
// SimUnicast endpoint.  Two modes:
//   manual: the harness hands units over explicitly (event-loop scenarios, e.g. rbc)
//   auto  : Send schedules the arrival after a seeded latency, Receive blocks the calling task
#ifndef TMCGSIM_SIMUNICAST_HH
#define TMCGSIM_SIMUNICAST_HH

#include <libTMCG.hh>
#include <aiounicast.hh>
#include "sim.hh"

namespace sim {

struct Unit
{
	std::vector<std::string> ints;    // base-16 text (with sign) of each integer of one Send call
};

inline std::string mpz2s(mpz_srcptr m)
{
	char *c = mpz_get_str(NULL, 16, m);
	std::string s(c);
	void (*freefunc)(void *, size_t);
	mp_get_memory_functions(NULL, NULL, &freefunc);
	freefunc(c, strlen(c) + 1);
	return s;
}
inline void s2mpz(mpz_ptr m, const std::string &s) { mpz_set_str(m, s.c_str(), 16); }

class Net
{
public:
	Sim *S;
	size_t n;
	bool auto_deliver;
	int64_t lat_min_ms, lat_max_ms;   // honest link latency (auto mode)
	std::vector<std::vector<std::deque<Unit> > > flight;          // [src][dst]
	std::vector<std::vector<std::deque<std::string> > > inbox;    // [dst][src]
	std::vector<std::vector<int64_t> > last_arrival;              // per-link FIFO in auto mode
	std::vector<std::vector<bool> > cut;                          // partition: link blocked
	std::vector<bool> silent;                                     // party's sends are dropped
	std::vector<std::vector<int64_t> > extra_lat;                 // per-link additional latency
	// observe every unit accepted for sending (before filtering)
	std::function<void(size_t src, size_t dst, const Unit &u)> tap;
	// Byzantine link filter: may replace one unit by zero or more units (per src)
	std::function<void(size_t src, size_t dst, const Unit &u, std::vector<Unit> &out)> filter;
	// called whenever a Receive returned a value (dst, src, ints)
	std::function<void(size_t dst, size_t src, const std::vector<std::string> &ints)> on_receive;
	// called when an honest party's Receive from a given peer timed out (dst, src or n)
	std::function<void(size_t dst, size_t src)> on_timeout;
	// full-stack mode: a unit that passed tap / filter is handed to a real channel endpoint instead of
	// being queued here (the endpoint's bytes then travel through simulated descriptors)
	std::function<void(size_t src, size_t dst, const Unit &u)> deliver_override;
	// full-stack mode of the event-loop scenarios (manual hand-over): the unit is framed by a real endpoint at
	// once (returns how many of its integers were accepted), its bytes stay invisible until hand() releases them
	std::function<size_t(size_t src, size_t dst, const Unit &u)> frame_override;
	std::function<void(size_t src, size_t dst, const Unit &u)> on_hand;
	uint64_t units_sent, ints_sent, units_handed;
	uint64_t tag;                     // history tag to distinguish several nets

	Net(Sim *S_in, size_t n_in, bool auto_in, uint64_t tag_in = 0)
		: S(S_in), n(n_in), auto_deliver(auto_in), lat_min_ms(1), lat_max_ms(50),
		  units_sent(0), ints_sent(0), units_handed(0), tag(tag_in)
	{
		flight.resize(n); inbox.resize(n); last_arrival.resize(n); cut.resize(n); extra_lat.resize(n);
		for (size_t i = 0; i < n; i++)
		{
			flight[i].resize(n); inbox[i].resize(n); last_arrival[i].assign(n, 0);
			cut[i].assign(n, false); extra_lat[i].assign(n, 0);
		}
		silent.assign(n, false);
	}

	void enqueue(size_t src, size_t dst, const Unit &u)
	{
		units_sent++; ints_sent += u.ints.size();
		S->hist.add(H_SEND, (tag << 32) | (src << 16) | dst, u.ints.size());
		for (size_t k = 0; k < u.ints.size(); k++)
			S->hist.add_str(H_SEND, u.ints[k]);
		if (deliver_override)
		{
			deliver_override(src, dst, u);
			return;
		}
		if (!auto_deliver)
		{
			if (frame_override)
			{
				size_t k = frame_override(src, dst, u);
				if (k == 0)
					return;
				Unit v = u; v.ints.resize(k);
				flight[src][dst].push_back(v);
				return;
			}
			flight[src][dst].push_back(u);
			return;
		}
		int64_t lat = lat_min_ms + (int64_t)S->net.below((uint64_t)(lat_max_ms - lat_min_ms + 1));
		lat += extra_lat[src][dst];
		int64_t at = S->now_ms + lat;
		if (at < last_arrival[src][dst])
			at = last_arrival[src][dst]; // per-link FIFO (a stream underneath)
		last_arrival[src][dst] = at;
		flight[src][dst].push_back(u);
		S->at(at, [this, src, dst]{ this->hand(src, dst); });
	}

	// a party sends one unit
	void send(size_t src, size_t dst, const Unit &u)
	{
		if (tap)
			tap(src, dst, u);
		if (silent[src])
		{
			S->count("fault.silent_drop");
			return;
		}
		if (filter)
		{
			std::vector<Unit> out;
			filter(src, dst, u, out);
			for (size_t i = 0; i < out.size(); i++)
				enqueue(src, dst, out[i]);
		}
		else
			enqueue(src, dst, u);
	}

	// hand the oldest in-flight unit of link src->dst to the receiver's inbox
	bool hand(size_t src, size_t dst)
	{
		if (flight[src][dst].empty())
			return false;
		if (cut[src][dst])
		{
			if (auto_deliver) // retry after the partition is healed
				S->after(1000, [this, src, dst]{ this->hand(src, dst); });
			return false;
		}
		Unit u = flight[src][dst].front();
		flight[src][dst].pop_front();
		for (size_t k = 0; k < u.ints.size(); k++)
			inbox[dst][src].push_back(u.ints[k]);
		units_handed++;
		S->hist.add(H_RECV, (tag << 32) | (src << 16) | dst, u.ints.size());
		if (on_hand)
			on_hand(src, dst, u);
		return true;
	}

	size_t in_flight() const
	{
		size_t c = 0;
		for (size_t i = 0; i < n; i++)
			for (size_t k = 0; k < n; k++)
				c += flight[i][k].size();
		return c;
	}
	bool has_for(size_t dst, size_t need) const
	{
		for (size_t s = 0; s < n; s++)
			if (inbox[dst][s].size() >= need)
				return true;
		return false;
	}
};

class SimUnicast : public aiounicast
{
public:
	Net *net;
	size_t rr;                        // round-robin pointer
	bool seeded_pick;                 // choose among ready links with the sim's sched stream

	SimUnicast(Net *net_in, size_t j_in, size_t scheduler_in = aio_scheduler_roundrobin,
		time_t timeout_in = aio_timeout_very_long)
		: aiounicast(net_in->n, j_in, scheduler_in, timeout_in, true, true, false), net(net_in), rr(0),
		  seeded_pick(true)
	{
	}

	virtual bool Send(mpz_srcptr m, const size_t i_in, const time_t timeout = aio_timeout_default)
	{
		(void)timeout;
		if (i_in >= n)
			return false;
		Unit u; u.ints.push_back(mpz2s(m));
		net->send(j, i_in, u);
		numWrite++;
		return true;
	}
	virtual bool Send(const std::vector<mpz_srcptr> &m, const size_t i_in,
		const time_t timeout = aio_timeout_default)
	{
		(void)timeout;
		if (i_in >= n)
			return false;
		Unit u;
		for (size_t k = 0; k < m.size(); k++)
			u.ints.push_back(mpz2s(m[k]));
		net->send(j, i_in, u);
		numWrite += m.size();
		return true;
	}

	// choose a source link holding at least 'need' integers; n if none
	size_t choose(size_t need, size_t scheduler, size_t i_direct)
	{
		if (scheduler == aio_scheduler_direct)
			return (i_direct < n && net->inbox[j][i_direct].size() >= need) ? i_direct : n;
		std::vector<size_t> ok;
		for (size_t k = 0; k < n; k++)
		{
			size_t s = (rr + k) % n;
			if (net->inbox[j][s].size() >= need)
				ok.push_back(s);
		}
		if (ok.empty())
			return n;
		size_t pick = ok[0];
		if (seeded_pick && ok.size() > 1)
			pick = ok[net->S->sched.below(ok.size())];
		rr = (pick + 1) % n;
		return pick;
	}

	bool receive_generic(std::vector<mpz_ptr> &m, size_t &i_out, size_t scheduler, time_t timeout)
	{
		if (scheduler == aio_scheduler_default)
			scheduler = aio_default_scheduler;
		if (timeout == aio_timeout_default)
			timeout = aio_default_timeout;
		if (scheduler != aio_scheduler_roundrobin && scheduler != aio_scheduler_random &&
			scheduler != aio_scheduler_direct)
		{
			i_out = n;
			return false;
		}
		if (scheduler == aio_scheduler_direct && i_out >= n)
			return false;
		size_t i_direct = i_out;
		size_t need = m.size();
		Sim *S = net->S;
		size_t src = choose(need, scheduler, i_direct);
		if (src == n && S->in_task())
		{
			// block until something arrives or the deadline passes; a zero time-out poll waits
			// for the next tick of the one-second clock the callers' own deadlines are read from
			int64_t deadline;
			if (timeout > 0)
				deadline = S->now_ms + (int64_t)timeout * 1000;
			else
				deadline = (S->now_ms / 1000 + 1) * 1000;
			Net *N = net; size_t me = j;
			if (scheduler == aio_scheduler_direct)
				S->block_until([N, me, i_direct, need]{ return N->inbox[me][i_direct].size() >= need; }, deadline);
			else
				S->block_until([N, me, need]{ return N->has_for(me, need); }, deadline);
			src = choose(need, scheduler, i_direct);
		}
		if (src == n)
		{
			if (timeout > 0 && net->on_timeout)
				net->on_timeout(j, (scheduler == aio_scheduler_direct) ? i_direct : n);
			if (scheduler != aio_scheduler_direct)
				i_out = n;
			return false;
		}
		std::vector<std::string> got;
		for (size_t k = 0; k < need; k++)
		{
			got.push_back(net->inbox[j][src].front());
			s2mpz(m[k], net->inbox[j][src].front());
			net->inbox[j][src].pop_front();
		}
		i_out = src;
		numRead += need;
		if (net->on_receive)
			net->on_receive(j, src, got);
		return true;
	}

	virtual bool Receive(mpz_ptr m, size_t &i_out, const size_t scheduler = aio_scheduler_default,
		const time_t timeout = aio_timeout_default)
	{
		std::vector<mpz_ptr> v; v.push_back(m);
		return receive_generic(v, i_out, scheduler, timeout);
	}
	virtual bool Receive(std::vector<mpz_ptr> &m, size_t &i_out,
		const size_t scheduler = aio_scheduler_default, const time_t timeout = aio_timeout_default)
	{
		return receive_generic(m, i_out, scheduler, timeout);
	}
	virtual void Reset(const size_t i_in, const bool input) { (void)i_in; (void)input; }
	virtual ~SimUnicast() {}
};

} // namespace sim

#endif
