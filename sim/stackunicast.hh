// StackUnicast: "full stack" transport - the library's own aiounicast_select runs over simulated
// descriptors (SimFd) underneath the reliable broadcast and the multi-party protocols, in place of the
// SimUnicast stub.  The Net object is kept for what it decides (tap, Byzantine link filter, latencies,
// time-out observation); the integers themselves travel as authenticated / encrypted text frames through
// byte pipes whose content becomes visible to the reader after a seeded per-link latency.
#ifndef TMCGSIM_STACKUNICAST_HH
#define TMCGSIM_STACKUNICAST_HH

#include <libTMCG.hh>
#include <aiounicast_select.hh>
#include "simunicast.hh"
#include "simfd.hh"

namespace sim {

struct Stack
{
	Net *net;
	FdTable *fdt;
	std::vector<std::vector<SimPipe*> > pipe;   // [src][dst]
	std::vector<aiounicast_select*> ep;         // real endpoint of every party (owned by the party's task)
	bool auth, enc, chunked;
	std::string keybase;
	uint64_t bytes_released, frames;
	// reference model of the byte layer (C13): per directed link the integers whose real Send returned true
	std::vector<std::vector<std::deque<std::string> > > model;
	std::vector<std::vector<int64_t> > last_release_ms;
	std::string violation;                      // first disagreement between the real endpoints and the model
	unsigned frag_num, short_num, eintr_num;    // benign byte-level faults: chances out of 256 per write
	uint64_t n_frag, n_short_r, n_short_w, n_eintr, n_checked;

	// manual mode (event-loop scenarios): bytes of a framed unit become visible when the harness hands the unit over
	bool manual;
	std::vector<std::vector<std::deque<size_t> > > unit_bytes;   // [src][dst] byte length of every framed unit in flight
	std::vector<std::vector<size_t> > rest;                      // [src][dst] bytes of a unit handed over only in part
	uint64_t n_partial;

	Stack(Net *net_in, FdTable *fdt_in, bool auth_in, bool enc_in, bool chunked_in, const std::string &keybase_in, bool manual_in = false)
		: net(net_in), fdt(fdt_in), auth(auth_in), enc(enc_in), chunked(chunked_in), keybase(keybase_in), manual(manual_in), n_partial(0),
		  bytes_released(0), frames(0), frag_num(0), short_num(0), eintr_num(0), n_frag(0), n_short_r(0),
		  n_short_w(0), n_eintr(0), n_checked(0)
	{
		size_t n = net->n;
		pipe.resize(n); ep.assign(n, NULL);
		model.resize(n); last_release_ms.resize(n);
		for (size_t s = 0; s < n; s++) { model[s].resize(n); last_release_ms[s].assign(n, 0); }
		unit_bytes.resize(n); rest.resize(n);
		for (size_t s = 0; s < n; s++) { unit_bytes[s].resize(n); rest[s].assign(n, 0); }
		for (size_t s = 0; s < n; s++)
			for (size_t d = 0; d < n; d++)
			{
				SimPipe *p = fdt->make_pipe();
				p->auto_visible = false;
				p->capacity = (size_t)1 << 26;
				Stack *me = this;
				if (!manual)
				p->wire = [me, s, d, p](SimPipe &, std::string &bytes)
				{
					// what the writer's write(2) accepted reaches the reader after the link latency (FIFO)
					Net *N = me->net; Sim *S = N->S;
					int64_t lat = N->lat_min_ms + (int64_t)S->net.below((uint64_t)(N->lat_max_ms - N->lat_min_ms + 1));
					lat += N->extra_lat[s][d];
					int64_t at = S->now_ms + lat;
					if (at < N->last_arrival[s][d]) at = N->last_arrival[s][d];
					N->last_arrival[s][d] = at;
					size_t k = bytes.size();
					// benign faults of the byte layer, all inside the latency bound: the accepted bytes arrive in
					// two pieces (a frame is then visible up to an arbitrary offset - inside the IV, the line or
					// the tag), the next read or write is short, the next select is interrupted
					if (k > 1 && me->frag_num && S->fault.below(256) < me->frag_num)
					{
						size_t cut = 1 + (size_t)S->fault.below(k - 1);
						int64_t at2 = at + 1 + (int64_t)S->fault.below(120);
						N->last_arrival[s][d] = at2;
						S->at(at, [me, p, cut]{ me->bytes_released += p->release(cut); });
						S->at(at2, [me, p, k, cut, s, d]{ me->bytes_released += p->release(k - cut); me->last_release_ms[s][d] = me->net->S->now_ms; });
						me->n_frag++;
					}
					else
						S->at(at, [me, p, k, s, d]{ me->bytes_released += p->release(k); me->last_release_ms[s][d] = me->net->S->now_ms; });
					if (me->short_num && S->fault.below(256) < me->short_num)
					{ p->read_script.push_back(1 + (int)S->fault.below(40)); me->n_short_r++; }
					if (me->short_num && S->fault.below(256) < me->short_num)
					{ p->write_script.push_back(1 + (int)S->fault.below(40)); me->n_short_w++; }
					if (me->eintr_num && S->fault.below(256) < me->eintr_num)
					{ me->fdt->select_eintr_next = true; me->n_eintr++; }
				};
				pipe[s].push_back(p);
			}
		if (manual)
		{
			net->frame_override = [me = this](size_t src, size_t dst, const Unit &u) -> size_t
			{
				aiounicast_select *e = me->ep[src];
				if (e == NULL)
					return 0;
				SimPipe *p = me->pipe[src][dst];
				size_t before = p->flight.size(), k = 0;
				for (; k < u.ints.size(); k++)
				{
					mpz_t v; mpz_init(v); s2mpz(v, u.ints[k]);
					bool ok = e->Send(v, dst);
					mpz_clear(v);
					if (!ok) { me->net->S->count("probe.stack_send_failed"); break; }
					me->model[src][dst].push_back(u.ints[k]); me->frames++;
				}
				size_t bytes = p->flight.size() - before;
				if (k == 0)
				{
					// nothing of the unit was accepted; what a refused Send may have written travels with the next unit
					return 0;
				}
				me->unit_bytes[src][dst].push_back(bytes);
				return k;
			};
			net->on_hand = [me = this](size_t src, size_t dst, const Unit &)
			{
				if (me->unit_bytes[src][dst].empty())
					return;
				size_t bytes = me->unit_bytes[src][dst].front(); me->unit_bytes[src][dst].pop_front();
				SimPipe *p = me->pipe[src][dst];
				Sim *S = me->net->S;
				size_t now = me->rest[src][dst]; me->rest[src][dst] = 0;
				if (bytes > 1 && me->frag_num && S->fault.below(256) < me->frag_num)
				{
					// the receiver's next call sees the unit only up to an arbitrary byte; the remainder follows after it
					size_t cut = 1 + (size_t)S->fault.below(bytes - 1);
					now += cut; me->rest[src][dst] = bytes - cut; me->n_partial++;
				}
				else
					now += bytes;
				me->bytes_released += p->release(now);
			};
		}
		else
		net->deliver_override = [me = this](size_t src, size_t dst, const Unit &u)
		{
			aiounicast_select *e = me->ep[src];
			if (e == NULL)
				return;
			std::vector<mpz_t*> v(u.ints.size());
			std::vector<mpz_srcptr> mv;
			for (size_t k = 0; k < u.ints.size(); k++)
			{
				v[k] = (mpz_t*) new mpz_t[1];
				mpz_init(*v[k]); s2mpz(*v[k], u.ints[k]); mv.push_back(*v[k]);
			}
			bool ok = (mv.size() == 1) ? e->Send(mv[0], dst) : e->Send(mv, dst);
			me->frames += mv.size();
			if (!ok) me->net->S->count("probe.stack_send_failed");
			else for (size_t k = 0; k < u.ints.size(); k++) me->model[src][dst].push_back(u.ints[k]);
			for (size_t k = 0; k < v.size(); k++) { mpz_clear(*v[k]); delete [] v[k]; }
		};
	}

	// builds the real endpoint of party j (call it from the party's own task: the constructor draws
	// the IVs from the party's randomness)
	aiounicast_select *make_endpoint(size_t j, time_t timeout)
	{
		size_t n = net->n;
		std::vector<int> fin, fout; std::vector<std::string> key;
		for (size_t k = 0; k < n; k++)
		{
			fin.push_back(pipe[k][j]->rfd);
			fout.push_back(pipe[j][k]->wfd);
			size_t a = (j < k) ? j : k, b = (j < k) ? k : j;
			key.push_back(keybase + "-" + std::to_string(a) + "-" + std::to_string(b));
		}
		aiounicast_select *e = new aiounicast_select(n, j, fin, fout, key, aiounicast::aio_scheduler_roundrobin,
			timeout, auth, enc, chunked);
		ep[j] = e;
		return e;
	}
};

class StackUnicast : public aiounicast
{
public:
	Stack *st;
	aiounicast_select *real;
	time_t deft;

	StackUnicast(Stack *st_in, size_t j_in, time_t timeout_in)
		: aiounicast(st_in->net->n, j_in, aio_scheduler_roundrobin, timeout_in, true, true, false), st(st_in),
		  real(NULL), deft(timeout_in)
	{
		real = st->make_endpoint(j_in, timeout_in);
	}
	virtual ~StackUnicast() { st->ep[j] = NULL; delete real; }

	virtual bool Send(mpz_srcptr m, const size_t i_in, const time_t timeout = aio_timeout_default)
	{
		(void)timeout;
		if (i_in >= n) return false;
		Unit u; u.ints.push_back(mpz2s(m));
		st->net->send(j, i_in, u);
		numWrite++;
		return true;
	}
	virtual bool Send(const std::vector<mpz_srcptr> &m, const size_t i_in, const time_t timeout = aio_timeout_default)
	{
		(void)timeout;
		if (i_in >= n) return false;
		Unit u;
		for (size_t k = 0; k < m.size(); k++) u.ints.push_back(mpz2s(m[k]));
		st->net->send(j, i_in, u);
		numWrite += m.size();
		return true;
	}
	void after_receive(bool ok, const std::vector<mpz_ptr> &m, size_t i_before, size_t i_out, size_t scheduler, time_t timeout)
	{
		Net *N = st->net;
		if (scheduler == aio_scheduler_default) scheduler = aio_scheduler_roundrobin;
		if (timeout == aio_timeout_default) timeout = deft;
		if (ok && st->violation.empty() && i_out < n)
		{
			// C13 on the link i_out -> j: what the real endpoint returns is the head of what was accepted
			std::deque<std::string> &q = st->model[i_out][j];
			for (size_t k = 0; k < m.size(); k++)
			{
				std::string got = mpz2s(m[k]);
				if (q.empty() || q.front() != got)
				{
					st->violation = "link " + std::to_string(i_out) + "->" + std::to_string(j) + ": the endpoint returned " + got.substr(0, 40) +
						(q.empty() ? std::string(" although nothing accepted is outstanding") : " but the next accepted value is " + q.front().substr(0, 40));
					break;
				}
				q.pop_front(); st->n_checked++;
			}
		}
		else if (!ok && st->violation.empty() && timeout > 0 && scheduler == aio_scheduler_direct && i_before < n)
		{
			// a sender-specific receive waited its whole time-out although an accepted value of that link had
			// been completely visible to the reader for longer than the time-out
			std::deque<std::string> &q = st->model[i_before][j];
			SimPipe *p = st->pipe[i_before][j];
			if (!q.empty() && p->flight.empty() && st->last_release_ms[i_before][j] + (int64_t)timeout * 1000 <= N->S->now_ms - 1000)
				st->violation = "link " + std::to_string(i_before) + "->" + std::to_string(j) + ": a receive timed out after " + std::to_string((long long)timeout) +
					" s although " + std::to_string(q.size()) + " accepted values had been completely visible since " + std::to_string((long long)st->last_release_ms[i_before][j]) + " ms";
		}
		if (st->manual)
		{
			// what was handed over in part becomes complete after this call; the stub's inbox counts the integers
			// that are visible and not yet returned
			for (size_t s2 = 0; s2 < n; s2++)
				if (st->rest[s2][j]) { st->bytes_released += st->pipe[s2][j]->release(st->rest[s2][j]); st->rest[s2][j] = 0; }
			if (ok && i_out < n)
				for (size_t k = 0; k < m.size() && !N->inbox[j][i_out].empty(); k++) N->inbox[j][i_out].pop_front();
		}
		if (ok)
		{
			numRead += m.size();
			if (N->on_receive)
			{
				std::vector<std::string> got;
				for (size_t k = 0; k < m.size(); k++) got.push_back(mpz2s(m[k]));
				N->on_receive(j, i_out, got);
			}
		}
		else if (timeout > 0 && N->on_timeout)
			N->on_timeout(j, (scheduler == aio_scheduler_direct) ? i_before : n);
	}
	virtual bool Receive(mpz_ptr m, size_t &i_out, const size_t scheduler = aio_scheduler_default,
		const time_t timeout = aio_timeout_default)
	{
		size_t i_before = i_out;
		bool ok = real->Receive(m, i_out, scheduler, timeout);
		std::vector<mpz_ptr> v; v.push_back(m);
		after_receive(ok, v, i_before, i_out, scheduler, timeout);
		return ok;
	}
	virtual bool Receive(std::vector<mpz_ptr> &m, size_t &i_out, const size_t scheduler = aio_scheduler_default,
		const time_t timeout = aio_timeout_default)
	{
		size_t i_before = i_out;
		bool ok = real->Receive(m, i_out, scheduler, timeout);
		after_receive(ok, m, i_before, i_out, scheduler, timeout);
		return ok;
	}
	virtual void Reset(const size_t i_in, const bool input) { real->Reset(i_in, input); }
};

} // namespace sim

#endif
