// tmcgsim core: seeded PRNG tree, discrete-event clock, baton-scheduled tasks,
// history fingerprint, counters.  One Sim object = one run = one seed.
#ifndef TMCGSIM_SIM_HH
#define TMCGSIM_SIM_HH

#include <cstdint>
#include <cstdio>
#include <cstring>
#include <ctime>
#include <string>
#include <vector>
#include <map>
#include <deque>
#include <queue>
#include <functional>
#include <thread>
#include <mutex>
#include <condition_variable>
#include <sstream>

namespace sim {

// ---------------------------------------------------------------- PRNG
inline uint64_t splitmix64(uint64_t &x)
{
	uint64_t z = (x += 0x9E3779B97F4A7C15ULL);
	z = (z ^ (z >> 30)) * 0xBF58476D1CE4E5B9ULL;
	z = (z ^ (z >> 27)) * 0x94D049BB133111EBULL;
	return z ^ (z >> 31);
}

struct Rng
{
	uint64_t s[4];
	uint64_t draws;
	Rng() : draws(0) { seed(0); }
	explicit Rng(uint64_t x) : draws(0) { seed(x); }
	void seed(uint64_t x)
	{
		for (int i = 0; i < 4; i++)
			s[i] = splitmix64(x);
		draws = 0;
	}
	static inline uint64_t rotl(uint64_t x, int k) { return (x << k) | (x >> (64 - k)); }
	uint64_t next()
	{
		const uint64_t result = rotl(s[1] * 5, 7) * 9;
		const uint64_t t = s[1] << 17;
		s[2] ^= s[0]; s[3] ^= s[1]; s[1] ^= s[2]; s[0] ^= s[3];
		s[2] ^= t; s[3] = rotl(s[3], 45);
		draws++;
		return result;
	}
	// uniform in [0, n), n > 0 (rejection, no modulo bias)
	uint64_t below(uint64_t n)
	{
		if (n <= 1)
			return 0;
		uint64_t lim = UINT64_MAX - (UINT64_MAX % n);
		uint64_t r;
		do { r = next(); } while (r >= lim);
		return r % n;
	}
	int64_t range(int64_t lo, int64_t hi) // inclusive
	{
		return lo + (int64_t)below((uint64_t)(hi - lo + 1));
	}
	bool chance(uint32_t num, uint32_t den) { return below(den) < num; }
	void fill(unsigned char *buf, size_t len)
	{
		size_t i = 0;
		while (i < len)
		{
			uint64_t r = next();
			for (int k = 0; k < 8 && i < len; k++, i++)
				buf[i] = (unsigned char)(r >> (8 * k));
		}
	}
	template<class T> const T& pick(const std::vector<T> &v) { return v[below(v.size())]; }
};

// derive an independent stream from (seed, label)
inline uint64_t derive(uint64_t seed, uint64_t label)
{
	uint64_t x = seed ^ (label * 0xD6E8FEB86659FD93ULL);
	splitmix64(x);
	return splitmix64(x);
}

// ---------------------------------------------------------------- history
struct Hist
{
	uint64_t h, n;
	Hist() : h(0xcbf29ce484222325ULL), n(0) {}
	inline void mix(uint64_t v)
	{
		h ^= v; h *= 0x100000001b3ULL; h ^= (h >> 29);
	}
	void add(uint64_t tag, uint64_t a = 0, uint64_t b = 0, uint64_t c = 0)
	{
		n++;
		mix(tag); mix(a); mix(b); mix(c); mix(n);
	}
	void add_bytes(uint64_t tag, const void *p, size_t len)
	{
		n++;
		mix(tag); mix(len);
		const unsigned char *q = (const unsigned char*)p;
		uint64_t acc = 0;
		for (size_t i = 0; i < len; i++)
		{
			acc = (acc << 8) | q[i];
			if ((i & 7) == 7) { mix(acc); acc = 0; }
		}
		mix(acc); mix(n);
	}
	void add_str(uint64_t tag, const std::string &s) { add_bytes(tag, s.data(), s.size()); }
};

typedef std::map<std::string, uint64_t> Counters;

// tags for history events (scenario-specific ones start at 100)
enum { H_SCHED = 1, H_CLOCK, H_EVENT, H_SEND, H_RECV, H_FAULT, H_RAND, H_OP, H_RESULT,
       H_EOF, H_SPAWN, H_DONE, H_LINE, H_IO };

// ---------------------------------------------------------------- tasks
struct SimAbort { }; // thrown into tasks to unwind them (not a std::exception)

class Sim;
extern Sim *g_sim;                   // active simulation (NULL: wrappers pass through)

struct Task
{
	int id;
	std::string name;
	int party;
	enum State { NEW, RUNNABLE, BLOCKED, DONE } state;
	std::function<bool()> ready;      // evaluated by the scheduler when BLOCKED
	int64_t wake_ms;                  // -1: no deadline
	int64_t skew_s;                   // clock skew of this task (seconds)
	unsigned weight;                  // scheduling weight (slow node: small)
	std::thread th;
	std::mutex mu;
	std::condition_variable cv;
	bool go;
	std::function<void()> fn;
	std::string failure;              // uncaught exception text
	bool aborted;
	uint64_t spin;                    // clock reads since the task last gave the baton back (busy-wait guard)
	Task() : id(0), party(-1), state(NEW), wake_ms(-1), skew_s(0), weight(8), go(false),
		aborted(false), spin(0) {}
};

struct Event
{
	int64_t t; uint64_t seq; std::function<void()> fn;
	bool operator<(const Event &o) const { return (t != o.t) ? (t > o.t) : (seq > o.seq); }
};

class Sim
{
public:
	uint64_t seed;
	Rng gen, sched, net, fault;
	std::vector<Rng> party;           // library randomness of party i
	int64_t now_ms;                   // global simulated time (ms since base)
	int64_t base_s;                   // epoch seconds corresponding to now_ms = 0
	Hist hist;
	Counters cnt;
	uint64_t steps, max_steps;
	bool aborting, deadlocked, step_budget_hit;
	int single_party;                 // party of the running code in single-threaded scenarios
	int64_t single_skew_s;
	std::function<void()> on_deadlock;// hook: e.g. close all streams
	std::function<void()> after_step; // invariant hook (scheduler thread)
	// coin script: forced draws for one party (C04)
	int coin_party; std::deque<unsigned char> coin_bytes; uint64_t coin_used;

	explicit Sim(uint64_t seed_in, size_t nparties = 16);
	~Sim();

	// --- events / clock
	void at(int64_t t_ms, std::function<void()> fn);
	void after(int64_t d_ms, std::function<void()> fn) { at(now_ms + d_ms, fn); }
	bool run_due_events();            // runs events with t <= now
	bool advance_clock();             // jump to next event / wake-up; false if none
	time_t time_now() const;          // what time() returns to the running code

	// --- tasks
	int spawn(const std::string &name, int party, std::function<void()> fn, unsigned weight = 8);
	void run();                       // scheduler loop until all tasks are done
	void yield();                     // from a task: hand the baton back
	// from a task: block until pred() or deadline (absolute ms, -1 none); returns pred()
	bool block_until(std::function<bool()> pred, int64_t deadline_ms = -1);
	void sleep_ms(int64_t d) { block_until([]{ return false; }, now_ms + d); }
	Task *current() { return cur; }
	int cur_party() const;
	bool in_task() const { return cur != NULL; }
	std::vector<Task*> tasks;

	// --- randomness seam
	void random_bytes(unsigned char *buf, size_t len);

	void count(const std::string &k, uint64_t d = 1) { cnt[k] += d; }

private:
	std::priority_queue<Event> evq;
	uint64_t evseq;
	Task *cur;
	std::mutex smu;
	std::condition_variable scv;
	bool sched_go;
	void resume(Task *t);
	void task_main(Task *t);
	void to_scheduler(Task *t);
};

// helper: hex/decimal
inline std::string u64hex(uint64_t v)
{
	char b[32]; snprintf(b, sizeof(b), "%016llx", (unsigned long long)v); return b;
}

} // namespace sim

#endif
