#include "simfd.hh"
#include <unistd.h>
#include <fcntl.h>
#include <errno.h>
#include <stdarg.h>
#include <sys/select.h>

namespace sim {

FdTable *g_fdt = NULL;

FdTable::~FdTable()
{
	if (g_fdt == this)
		g_fdt = NULL;
	for (size_t i = 0; i < pipes.size(); i++)
		delete pipes[i];
}

SimPipe *FdTable::make_pipe()
{
	if (next_fd + 2 > 1023)
		return NULL;
	SimPipe *p = new SimPipe();
	p->rfd = next_fd++;
	p->wfd = next_fd++;
	rd[p->rfd] = p;
	wr[p->wfd] = p;
	pipes.push_back(p);
	return p;
}

void FdTable::activate() { g_fdt = this; }
void FdTable::deactivate() { if (g_fdt == this) g_fdt = NULL; }

static inline bool is_sim_fd(int fd) { return g_fdt && fd >= 600 && fd < 1024; }

} // namespace sim

using namespace sim;

extern "C" {

ssize_t __real_read(int fd, void *buf, size_t len);
ssize_t __real_write(int fd, const void *buf, size_t len);
int __real_select(int nfds, fd_set *r, fd_set *w, fd_set *e, struct timeval *tv);
int __real_fcntl(int fd, int cmd, ...);

ssize_t __wrap_read(int fd, void *buf, size_t len)
{
	if (!is_sim_fd(fd))
		return __real_read(fd, buf, len);
	std::map<int, SimPipe*>::iterator it = g_fdt->rd.find(fd);
	if (it == g_fdt->rd.end()) { errno = EBADF; return -1; }
	SimPipe *p = it->second;
	p->n_read_calls++;
	size_t lim = len;
	if (!p->read_script.empty())
	{
		int s = p->read_script.front(); p->read_script.pop_front();
		if (s < 0)
		{
			if (g_sim) g_sim->hist.add(H_IO, 1, fd, (uint64_t)(-s));
			errno = -s; return -1;
		}
		if ((size_t)s < lim) lim = (size_t)s;
	}
	if (p->vis.empty())
	{
		if (p->wclosed && p->flight.empty())
		{
			if (g_sim) g_sim->hist.add(H_IO, 2, fd, 0);
			return 0; // EOF
		}
		errno = EAGAIN; return -1;
	}
	size_t c = 0;
	unsigned char *o = (unsigned char*)buf;
	while (c < lim && !p->vis.empty())
	{
		o[c++] = p->vis.front(); p->vis.pop_front();
	}
	if (c < len && !p->vis.empty()) p->n_short_reads++;
	p->total_read += c;
	if (g_sim) g_sim->hist.add(H_IO, 3, fd, c);
	return (ssize_t)c;
}

ssize_t __wrap_write(int fd, const void *buf, size_t len)
{
	if (!is_sim_fd(fd))
		return __real_write(fd, buf, len);
	std::map<int, SimPipe*>::iterator it = g_fdt->wr.find(fd);
	if (it == g_fdt->wr.end()) { errno = EBADF; return -1; }
	SimPipe *p = it->second;
	p->n_write_calls++;
	size_t lim = len;
	if (!p->write_script.empty())
	{
		int s = p->write_script.front(); p->write_script.pop_front();
		if (s < 0)
		{
			if (g_sim) g_sim->hist.add(H_IO, 4, fd, (uint64_t)(-s));
			errno = -s; return -1;
		}
		if ((size_t)s < lim) lim = (size_t)s;
	}
	size_t pending = p->vis.size() + p->flight.size();
	if (pending >= p->capacity) { errno = EAGAIN; return -1; }
	if (lim > p->capacity - pending) lim = p->capacity - pending;
	if (lim < len) p->n_short_writes++;
	std::string bytes((const char*)buf, lim);
	p->wirelog += bytes;
	p->total_written += lim;
	if (p->wire)
		p->wire(*p, bytes);
	for (size_t i = 0; i < bytes.size(); i++)
		p->flight.push_back((unsigned char)bytes[i]);
	if (p->auto_visible)
		p->release(0);
	if (g_sim) g_sim->hist.add(H_IO, 5, fd, lim);
	return (ssize_t)lim;
}

int __wrap_select(int nfds, fd_set *r, fd_set *w, fd_set *e, struct timeval *tv)
{
	bool any_sim = false;
	if (g_fdt)
		for (int fd = 600; fd < nfds && fd < 1024; fd++)
			if ((r && FD_ISSET(fd, r)) || (w && FD_ISSET(fd, w)))
				any_sim = true;
	if (!any_sim)
		return __real_select(nfds, r, w, e, tv);
	if (g_fdt->select_eintr_next)
	{
		g_fdt->select_eintr_next = false;
		if (g_sim) g_sim->hist.add(H_IO, 6, 0, EINTR);
		errno = EINTR; return -1;
	}
	auto readiness = [&](fd_set *rr, fd_set *ww, bool apply) -> int
	{
		int cnt = 0;
		for (int fd = 600; fd < nfds && fd < 1024; fd++)
		{
			if (rr && FD_ISSET(fd, rr))
			{
				std::map<int, SimPipe*>::iterator it = g_fdt->rd.find(fd);
				bool ok = (it != g_fdt->rd.end()) && (!it->second->vis.empty() ||
					(it->second->wclosed && it->second->flight.empty()) ||
					(!it->second->read_script.empty() && it->second->read_script.front() < 0)); // a scripted error is reported by the next read
				if (ok) cnt++; else if (apply) FD_CLR(fd, rr);
			}
			if (ww && FD_ISSET(fd, ww))
			{
				std::map<int, SimPipe*>::iterator it = g_fdt->wr.find(fd);
				bool ok = (it != g_fdt->wr.end()) &&
					(it->second->vis.size() + it->second->flight.size() < it->second->capacity);
				if (ok) cnt++; else if (apply) FD_CLR(fd, ww);
			}
		}
		return cnt;
	};
	int cnt = readiness(r, w, false);
	if (cnt == 0 && g_sim)
	{
		int64_t ms = tv ? (tv->tv_sec * 1000 + tv->tv_usec / 1000) : 1000;
		if (ms < 1) ms = 1;
		if (g_sim->in_task())
		{
			fd_set *rr = r, *ww = w;
			g_sim->block_until([&]{ return readiness(rr, ww, false) > 0; }, g_sim->now_ms + ms);
		}
		else
		{
			g_sim->now_ms += ms;
			g_sim->hist.add(H_CLOCK, (uint64_t)g_sim->now_ms);
		}
	}
	cnt = readiness(r, w, true);
	if (e) FD_ZERO(e);
	return cnt;
}

int __wrap_fcntl(int fd, int cmd, ...)
{
	va_list ap; va_start(ap, cmd);
	long arg = va_arg(ap, long);
	va_end(ap);
	if (!is_sim_fd(fd))
		return __real_fcntl(fd, cmd, arg);
	if (cmd == F_GETFL) return O_NONBLOCK | O_RDWR;
	return 0;
}

} // extern "C"
