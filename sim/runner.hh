// tmcgsim runner: plans, results, worker pool, determinism proof, minimisation, gate, evidence.
#ifndef TMCGSIM_RUNNER_HH
#define TMCGSIM_RUNNER_HH

#include "sim.hh"
#include <set>

namespace sim {

struct Op
{
	std::string kind;
	std::vector<int64_t> a;
	std::string s;                    // optional text argument (no newlines / spaces: hex or token)
	Op() {}
	Op(const std::string &k) : kind(k) {}
	Op(const std::string &k, int64_t a0) : kind(k) { a.push_back(a0); }
	Op(const std::string &k, int64_t a0, int64_t a1) : kind(k) { a.push_back(a0); a.push_back(a1); }
	Op(const std::string &k, int64_t a0, int64_t a1, int64_t a2) : kind(k)
		{ a.push_back(a0); a.push_back(a1); a.push_back(a2); }
	Op(const std::string &k, int64_t a0, int64_t a1, int64_t a2, int64_t a3) : kind(k)
		{ a.push_back(a0); a.push_back(a1); a.push_back(a2); a.push_back(a3); }
	int64_t arg(size_t i, int64_t d = 0) const { return (i < a.size()) ? a[i] : d; }
	bool is_fault() const { return kind.compare(0, 2, "f_") == 0; }
};

struct Plan
{
	std::string scenario, property;
	uint64_t seed;
	std::map<std::string, int64_t> cfg;
	std::vector<Op> ops;
	std::map<std::string, std::string> blobs; // hex encoded artefacts (pgp)
	// filled in replay files only
	std::string vclass, vprop, sig;
	uint64_t fingerprint;
	Plan() : seed(0), fingerprint(0) {}
	int64_t get(const std::string &k, int64_t d = 0) const
	{
		std::map<std::string, int64_t>::const_iterator it = cfg.find(k);
		return (it == cfg.end()) ? d : it->second;
	}
	std::string to_text() const;
	bool from_text(const std::string &txt);
	std::string brief(size_t maxops = 12) const; // one-line rendering for evidence samples
};

struct RunResult
{
	uint64_t fingerprint;
	std::string vprop, vclass, sig, detail; // vclass empty: property held in this run
	Counters cnt;
	uint64_t steps;
	int64_t sim_ms;
	bool nontrivial;                  // at least one fault fired / non-forced schedule decision
	bool excluded;                    // run outside the property's assumptions (counted, not judged)
	RunResult() : fingerprint(0), steps(0), sim_ms(0), nontrivial(false), excluded(false) {}
	bool ok() const { return vclass.empty(); }
	void violate(const std::string &prop, const std::string &cls, const std::string &sig_in,
		const std::string &detail_in)
	{
		if (!vclass.empty())
			return; // first violation wins
		vprop = prop; vclass = cls; sig = sig_in; detail = detail_in;
	}
};

struct Tier
{
	bool thorough;
	std::string property;
	std::map<std::string, std::string> opt; // extra --key value options
};

struct Scenario
{
	std::string name;
	std::string real_components, stub_components;
	// property -> what nontrivial means / how cases are generated
	std::string rule;
	Plan (*generate)(uint64_t seed, const Tier &tier);
	RunResult (*execute)(const Plan &plan);
	// optional: further shrink candidates (smaller configuration) for a failing plan
	void (*shrink_more)(const Plan &plan, std::vector<Plan> &out);
	// optional: enumerated (non-seeded) cases that are run in addition to seeded ones
	void (*enumerate)(const Tier &tier, std::vector<Plan> &out);
	// optional one-time initialisation in each worker (key pools ...)
	void (*worker_init)(const Tier &tier);
	Scenario() : generate(NULL), execute(NULL), shrink_more(NULL), enumerate(NULL), worker_init(NULL) {}
};

int runner_main(int argc, char **argv, const Scenario &sc);

// utilities for scenarios
std::string hexenc(const std::string &bin);
std::string hexdec(const std::string &hex);

// stderr capture (library chatter -> reach probes)
struct CerrCapture
{
	std::streambuf *old;
	std::ostringstream buf;
	CerrCapture();
	~CerrCapture();
	std::string str() const { return buf.str(); }
	void clear() { buf.str(""); }
};
size_t count_substr(const std::string &hay, const std::string &needle);

} // namespace sim

#endif
