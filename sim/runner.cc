// tmcgsim runner implementation.
#include "runner.hh"
#include <unistd.h>
#include <fcntl.h>
#include <signal.h>
#include <poll.h>
#include <sys/wait.h>
#include <sys/stat.h>
#include <sys/time.h>
#include <sys/resource.h>
#include <sys/prctl.h>
#include <errno.h>
#include <cstdlib>
#include <iostream>
#include <fstream>
#include <algorithm>
#include <exception>

// sanitizer defaults: exit code 77 classifies a sanitizer report; no leak flood
extern "C" __attribute__((used, visibility("default"))) const char *__asan_default_options()
{
	return "exitcode=77:detect_leaks=0:allocator_may_return_null=1:max_allocation_size_mb=3072:"
	       "hard_rss_limit_mb=12000:detect_stack_use_after_return=0:abort_on_error=0:"
	       "handle_abort=0:print_summary=1:quarantine_size_mb=8:thread_local_quarantine_size_kb=64:"
	       "malloc_context_size=4";
}
extern "C" __attribute__((used, visibility("default"))) const char *__ubsan_default_options()
{
	return "print_stacktrace=1:halt_on_error=1:exitcode=77";
}

namespace sim {

// ------------------------------------------------------------------ helpers
std::string hexenc(const std::string &bin)
{
	static const char *d = "0123456789abcdef";
	std::string o; o.reserve(bin.size() * 2);
	for (size_t i = 0; i < bin.size(); i++)
	{
		o += d[((unsigned char)bin[i]) >> 4]; o += d[((unsigned char)bin[i]) & 15];
	}
	return o;
}
std::string hexdec(const std::string &hex)
{
	std::string o;
	for (size_t i = 0; i + 1 < hex.size(); i += 2)
	{
		int v = 0;
		for (int k = 0; k < 2; k++)
		{
			char c = hex[i + k]; v <<= 4;
			if (c >= '0' && c <= '9') v |= c - '0';
			else if (c >= 'a' && c <= 'f') v |= c - 'a' + 10;
			else if (c >= 'A' && c <= 'F') v |= c - 'A' + 10;
		}
		o += (char)v;
	}
	return o;
}

CerrCapture::CerrCapture() { old = std::cerr.rdbuf(buf.rdbuf()); }
CerrCapture::~CerrCapture() { std::cerr.rdbuf(old); }
size_t count_substr(const std::string &hay, const std::string &needle)
{
	size_t c = 0, p = 0;
	while ((p = hay.find(needle, p)) != std::string::npos) { c++; p += needle.size(); }
	return c;
}

static std::string esc_line(const std::string &s) // for the pipe protocol
{
	std::string o;
	for (size_t i = 0; i < s.size(); i++)
	{
		char c = s[i];
		if (c == '\n') o += "\\n";
		else if (c == '\t') o += "\\t";
		else if (c == '\\') o += "\\\\";
		else if ((unsigned char)c < 32) o += '?';
		else o += c;
	}
	return o;
}
static std::string unesc_line(const std::string &s)
{
	std::string o;
	for (size_t i = 0; i < s.size(); i++)
	{
		if (s[i] == '\\' && i + 1 < s.size())
		{
			i++;
			if (s[i] == 'n') o += '\n'; else if (s[i] == 't') o += '\t'; else o += s[i];
		}
		else o += s[i];
	}
	return o;
}
static std::string jesc(const std::string &s)
{
	std::string o;
	for (size_t i = 0; i < s.size(); i++)
	{
		unsigned char c = s[i];
		if (c == '"') o += "\\\""; else if (c == '\\') o += "\\\\";
		else if (c == '\n') o += "\\n"; else if (c == '\t') o += "\\t";
		else if (c < 32 || c > 126) { char b[8]; snprintf(b, sizeof(b), "\\u%04x", c); o += b; }
		else o += c;
	}
	return o;
}
static std::vector<std::string> split(const std::string &s, char d)
{
	std::vector<std::string> v; std::string cur;
	for (size_t i = 0; i < s.size(); i++)
	{
		if (s[i] == d) { v.push_back(cur); cur.clear(); } else cur += s[i];
	}
	v.push_back(cur);
	return v;
}
static double wall()
{
	struct timeval tv; gettimeofday(&tv, NULL);
	return tv.tv_sec + tv.tv_usec / 1e6;
}

// ------------------------------------------------------------------ Plan text
std::string Plan::to_text() const
{
	std::ostringstream o;
	o << "tmcgsim-replay 1\n";
	o << "scenario " << scenario << "\n";
	o << "property " << property << "\n";
	o << "seed " << seed << "\n";
	if (!vclass.empty())
	{
		o << "vprop " << vprop << "\n";
		o << "vclass " << vclass << "\n";
		o << "sig " << sig << "\n";
		o << "fingerprint " << u64hex(fingerprint) << "\n";
	}
	for (std::map<std::string, int64_t>::const_iterator it = cfg.begin(); it != cfg.end(); ++it)
		o << "cfg " << it->first << " " << it->second << "\n";
	for (size_t i = 0; i < ops.size(); i++)
	{
		o << "op " << ops[i].kind;
		for (size_t k = 0; k < ops[i].a.size(); k++)
			o << " " << ops[i].a[k];
		if (!ops[i].s.empty())
			o << " :" << ops[i].s;
		o << "\n";
	}
	for (std::map<std::string, std::string>::const_iterator it = blobs.begin(); it != blobs.end(); ++it)
		o << "blob " << it->first << " " << it->second << "\n";
	o << "end\n";
	return o.str();
}

bool Plan::from_text(const std::string &txt)
{
	std::istringstream in(txt);
	std::string line;
	if (!std::getline(in, line) || line.compare(0, 14, "tmcgsim-replay") != 0)
		return false;
	cfg.clear(); ops.clear(); blobs.clear();
	while (std::getline(in, line))
	{
		std::istringstream ls(line);
		std::string k; ls >> k;
		if (k == "scenario") ls >> scenario;
		else if (k == "property") ls >> property;
		else if (k == "seed") ls >> seed;
		else if (k == "vprop") ls >> vprop;
		else if (k == "vclass") ls >> vclass;
		else if (k == "sig") ls >> sig;
		else if (k == "fingerprint") { std::string h; ls >> h; fingerprint = strtoull(h.c_str(), NULL, 16); }
		else if (k == "cfg") { std::string n; int64_t v; ls >> n >> v; cfg[n] = v; }
		else if (k == "blob") { std::string n, v; ls >> n >> v; blobs[n] = v; }
		else if (k == "op")
		{
			Op op; ls >> op.kind;
			std::string tok;
			while (ls >> tok)
			{
				if (tok[0] == ':') { op.s = tok.substr(1); break; }
				op.a.push_back(strtoll(tok.c_str(), NULL, 10));
			}
			ops.push_back(op);
		}
		else if (k == "end") return true;
	}
	return true;
}

std::string Plan::brief(size_t maxops) const
{
	std::ostringstream o;
	o << scenario << " seed=" << seed << " cfg{";
	bool first = true;
	for (std::map<std::string, int64_t>::const_iterator it = cfg.begin(); it != cfg.end(); ++it)
	{
		o << (first ? "" : ",") << it->first << "=" << it->second; first = false;
	}
	o << "} ops[" << ops.size() << "]:";
	for (size_t i = 0; i < ops.size() && i < maxops; i++)
	{
		o << " " << ops[i].kind << "(";
		for (size_t k = 0; k < ops[i].a.size(); k++)
			o << (k ? "," : "") << ops[i].a[k];
		if (!ops[i].s.empty())
			o << (ops[i].a.empty() ? "" : ",") << ops[i].s.substr(0, 16);
		o << ")";
	}
	if (ops.size() > maxops)
		o << " ...";
	return o.str();
}

// ------------------------------------------------------------------ result lines
static std::string result_line(uint64_t k, uint64_t seed, const RunResult &r)
{
	std::ostringstream o;
	o << "R\t" << k << "\t" << seed << "\t" << u64hex(r.fingerprint) << "\t" << r.steps << "\t"
	  << r.sim_ms << "\t" << (r.nontrivial ? 1 : 0) << "\t" << (r.excluded ? 1 : 0) << "\t"
	  << (r.vprop.empty() ? "-" : r.vprop) << "\t" << (r.vclass.empty() ? "-" : r.vclass) << "\t"
	  << (r.sig.empty() ? "-" : esc_line(r.sig)) << "\t" << esc_line(r.detail) << "\n";
	return o.str();
}
static bool parse_result(const std::string &line, uint64_t &k, uint64_t &seed, RunResult &r)
{
	std::vector<std::string> f = split(line, '\t');
	if (f.size() < 12 || f[0] != "R")
		return false;
	k = strtoull(f[1].c_str(), NULL, 10);
	seed = strtoull(f[2].c_str(), NULL, 10);
	r.fingerprint = strtoull(f[3].c_str(), NULL, 16);
	r.steps = strtoull(f[4].c_str(), NULL, 10);
	r.sim_ms = strtoll(f[5].c_str(), NULL, 10);
	r.nontrivial = (f[6] == "1");
	r.excluded = (f[7] == "1");
	r.vprop = (f[8] == "-") ? "" : f[8];
	r.vclass = (f[9] == "-") ? "" : f[9];
	r.sig = (f[10] == "-") ? "" : unesc_line(f[10]);
	r.detail = unesc_line(f[11]);
	return true;
}

// ------------------------------------------------------------------ options
struct Options
{
	std::string prop, tier, replay, evidence_part, out_dir;
	uint64_t seed, runs, det;
	unsigned workers;
	double max_seconds, run_timeout;
	std::map<std::string, std::string> extra;
	Options() : tier("quick"), out_dir("replays"), seed(1), runs(100), det(16), workers(16),
		max_seconds(0), run_timeout(300) {}
};

static const Scenario *g_sc = NULL;
static Tier g_tier;
static std::vector<Plan> g_enum;

static Plan plan_for_case(uint64_t base_seed, uint64_t k)
{
	if (k < g_enum.size())
		return g_enum[k];
	uint64_t s = derive(base_seed, 7777 + (k - g_enum.size())) & 0x7fffffffffffULL;
	Plan p = g_sc->generate(s, g_tier);
	p.seed = s;
	p.scenario = g_sc->name;
	if (p.property.empty())
		p.property = g_tier.property;
	return p;
}

static void term_handler()
{
	const char msg[] = "tmcgsim: std::terminate called (uncaught exception)\n";
	if (write(2, msg, sizeof(msg) - 1)) {}
	_exit(78);
}

static void write_all(int fd, const std::string &s)
{
	size_t off = 0;
	while (off < s.size())
	{
		ssize_t w = ::write(fd, s.data() + off, s.size() - off);
		if (w < 0) { if (errno == EINTR) continue; _exit(79); }
		off += (size_t)w;
	}
}

// -------- run one plan in a forked child; returns false if the child died
struct ChildOutcome
{
	bool died; int status; RunResult res; std::string errtail;
	ChildOutcome() : died(false), status(0) {}
	std::string died_class() const
	{
		std::ostringstream o;
		if (WIFSIGNALED(status)) o << "killed_by_signal_" << WTERMSIG(status);
		else if (WIFEXITED(status) && WEXITSTATUS(status) == 77) o << "sanitizer_report";
		else if (WIFEXITED(status) && WEXITSTATUS(status) == 78) o << "uncaught_exception";
		else if (WIFEXITED(status) && WEXITSTATUS(status) == 80) o << "hang";
		else o << "exit_" << (WIFEXITED(status) ? WEXITSTATUS(status) : -1);
		return o.str();
	}
};

static std::string tail_of_file(const std::string &path, size_t maxb)
{
	std::ifstream f(path.c_str(), std::ios::binary);
	if (!f) return "";
	std::stringstream ss; ss << f.rdbuf();
	std::string s = ss.str();
	if (s.size() > maxb) s = s.substr(s.size() - maxb);
	return s;
}

static ChildOutcome exec_in_child(const Plan &p, double timeout_s)
{
	ChildOutcome out;
	int pfd[2];
	if (pipe(pfd) != 0) { out.died = true; return out; }
	char errpath[64]; snprintf(errpath, sizeof(errpath), "/tmp/tmcgsim-err-%d", (int)getpid());
	fflush(stdout); fflush(stderr);
	pid_t pid = fork();
	if (pid == 0)
	{
		close(pfd[0]);
		prctl(PR_SET_PDEATHSIG, SIGKILL);
		int efd = open(errpath, O_WRONLY | O_CREAT | O_TRUNC, 0600);
		if (efd >= 0) { dup2(efd, 2); close(efd); }
		std::set_terminate(term_handler);
		alarm((unsigned)timeout_s + 1);
		RunResult r = g_sc->execute(p);
		write_all(pfd[1], result_line(0, p.seed, r));
		_exit(0);
	}
	close(pfd[1]);
	std::string buf; char tmp[4096];
	double t0 = wall();
	for (;;)
	{
		struct pollfd pf; pf.fd = pfd[0]; pf.events = POLLIN;
		int pr = poll(&pf, 1, 1000);
		if (pr > 0)
		{
			ssize_t n = read(pfd[0], tmp, sizeof(tmp));
			if (n > 0) buf.append(tmp, n);
			else if (n == 0) break;
			else if (errno != EINTR) break;
		}
		if (wall() - t0 > timeout_s + 5) { kill(pid, SIGKILL); break; }
	}
	close(pfd[0]);
	int st = 0;
	waitpid(pid, &st, 0);
	out.status = st;
	uint64_t k, seed;
	size_t nl = buf.find('\n');
	if (nl != std::string::npos && parse_result(buf.substr(0, nl), k, seed, out.res) &&
		WIFEXITED(st) && WEXITSTATUS(st) == 0)
		out.died = false;
	else
	{
		out.died = true;
		if (WIFSIGNALED(st) && WTERMSIG(st) == SIGALRM)
			out.status = (80 << 8); // hang
		out.errtail = tail_of_file(errpath, 3000);
	}
	unlink(errpath);
	return out;
}

// the violation "identity" used while shrinking
struct VioKey
{
	std::string vprop, vclass;
	bool same(const ChildOutcome &o) const
	{
		if (o.died)
			return vclass == ("crash:" + o.died_class());
		return (o.res.vprop == vprop) && (o.res.vclass == vclass);
	}
};

static Plan minimise(const Plan &orig, const VioKey &key, unsigned budget, double timeout_s,
	unsigned &reruns)
{
	Plan cur = orig;
	reruns = 0;
	// 1. ddmin-style chunk removal over ops
	for (size_t chunk = std::max<size_t>(1, cur.ops.size() / 2); chunk >= 1; chunk /= 2)
	{
		size_t i = 0;
		while (i < cur.ops.size() && reruns < budget)
		{
			Plan cand = cur;
			size_t e = std::min(cand.ops.size(), i + chunk);
			cand.ops.erase(cand.ops.begin() + i, cand.ops.begin() + e);
			reruns++;
			ChildOutcome o = exec_in_child(cand, timeout_s);
			if (key.same(o))
				cur = cand;
			else
				i += chunk;
		}
		if (chunk == 1)
			break;
	}
	// 2. scenario-specific simplifications until a fixpoint
	if (g_sc->shrink_more)
	{
		bool progress = true;
		while (progress && reruns < budget)
		{
			progress = false;
			std::vector<Plan> cands;
			g_sc->shrink_more(cur, cands);
			for (size_t c = 0; c < cands.size() && reruns < budget; c++)
			{
				reruns++;
				ChildOutcome o = exec_in_child(cands[c], timeout_s);
				if (key.same(o)) { cur = cands[c]; progress = true; break; }
			}
		}
	}
	return cur;
}

// ------------------------------------------------------------------ worker
static void worker_loop(int wfd, unsigned w, unsigned W, uint64_t base_seed, uint64_t first,
	uint64_t last, double deadline)
{
	std::set_terminate(term_handler);
	Counters agg;
	uint64_t done = 0;
	for (uint64_t k = first + w; k < last; k += W)
	{
		if (deadline > 0 && wall() > deadline)
			break;
		Plan p = plan_for_case(base_seed, k);
		{
			std::ostringstream o; o << "S\t" << k << "\t" << p.seed << "\n";
			write_all(wfd, o.str());
		}
		if (k < first + 3 * (uint64_t)W && (k - first) / W == 0 && w < 4)
			write_all(wfd, "P\t" + esc_line(p.brief(24)) + "\n");
		RunResult r = g_sc->execute(p);
		for (Counters::iterator it = r.cnt.begin(); it != r.cnt.end(); ++it)
		{
			const std::string &kk = it->first;
			if (kk.size() > 4 && kk.compare(kk.size() - 4, 4, "_max") == 0)
				agg[kk] = std::max(agg[kk], it->second);
			else
				agg[kk] += it->second;
		}
		write_all(wfd, result_line(k, p.seed, r));
		if (++done % 64 == 0)
		{
			std::ostringstream o;
			for (Counters::iterator it = agg.begin(); it != agg.end(); ++it)
				o << "C\t" << it->first << "\t" << it->second << "\n";
			write_all(wfd, o.str());
			agg.clear();
		}
	}
	std::ostringstream o;
	for (Counters::iterator it = agg.begin(); it != agg.end(); ++it)
		o << "C\t" << it->first << "\t" << it->second << "\n";
	o << "E\n";
	write_all(wfd, o.str());
}

struct WorkerState
{
	pid_t pid; int fd; std::string buf; bool alive; bool finished;
	int64_t cur_k; uint64_t cur_seed; double cur_start; unsigned index; uint64_t next_first;
	WorkerState() : pid(-1), fd(-1), alive(false), finished(false), cur_k(-1), cur_seed(0),
		cur_start(0), index(0), next_first(0) {}
};

struct Candidate
{
	uint64_t k, seed; RunResult res; bool crashed; std::string crash_class, errtail;
	Candidate() : k(0), seed(0), crashed(false) {}
};

struct PassStats
{
	uint64_t evaluations, excluded, steps; int64_t sim_ms;
	std::map<uint64_t, uint64_t> fp_by_k;
	std::set<uint64_t> distinct_nontrivial, distinct_all;
	Counters cnt;
	std::vector<std::string> samples;
	std::vector<Candidate> cands;
	PassStats() : evaluations(0), excluded(0), steps(0), sim_ms(0) {}
};

static void spawn_worker(WorkerState &ws, unsigned W, uint64_t base_seed, uint64_t first,
	uint64_t last, double deadline)
{
	int pfd[2];
	if (pipe(pfd) != 0) { perror("pipe"); exit(2); }
	fflush(stdout); fflush(stderr);
	pid_t pid = fork();
	if (pid == 0)
	{
		close(pfd[0]);
		prctl(PR_SET_PDEATHSIG, SIGKILL);
		if (!getenv("TMCGSIM_WORKER_STDERR"))
		{
			int nfd = open("/dev/null", O_WRONLY); // perror() chatter of the library; crashes are re-run with capture
			if (nfd >= 0) { dup2(nfd, 2); close(nfd); }
		}
		worker_loop(pfd[1], ws.index, W, base_seed, first, last, deadline);
		_exit(0);
	}
	close(pfd[1]);
	ws.pid = pid; ws.fd = pfd[0]; ws.alive = true; ws.finished = false; ws.buf.clear();
	ws.cur_k = -1;
}

static void run_pass(unsigned W, uint64_t base_seed, uint64_t first, uint64_t last,
	double max_seconds, double run_timeout, PassStats &ps, bool quiet)
{
	double deadline = (max_seconds > 0) ? wall() + max_seconds : 0;
	std::vector<WorkerState> ws(W);
	for (unsigned w = 0; w < W; w++)
	{
		ws[w].index = w;
		spawn_worker(ws[w], W, base_seed, first, last, deadline);
	}
	for (;;)
	{
		std::vector<struct pollfd> pfs; std::vector<unsigned> idx;
		for (unsigned w = 0; w < W; w++)
			if (ws[w].alive)
			{
				struct pollfd pf; pf.fd = ws[w].fd; pf.events = POLLIN; pf.revents = 0;
				pfs.push_back(pf); idx.push_back(w);
			}
		if (pfs.empty())
			break;
		int pr = poll(&pfs[0], pfs.size(), 1000);
		if (pr < 0 && errno != EINTR) { perror("poll"); exit(2); }
		double now = wall();
		for (size_t q = 0; q < pfs.size(); q++)
		{
			WorkerState &s = ws[idx[q]];
			bool eof = false;
			if (pfs[q].revents & (POLLIN | POLLHUP))
			{
				char tmp[65536];
				ssize_t n = read(s.fd, tmp, sizeof(tmp));
				if (n > 0) s.buf.append(tmp, n);
				else if (n == 0) eof = true;
			}
			size_t nl;
			while ((nl = s.buf.find('\n')) != std::string::npos)
			{
				std::string line = s.buf.substr(0, nl);
				s.buf.erase(0, nl + 1);
				if (line.empty()) continue;
				if (line[0] == 'S')
				{
					std::vector<std::string> f = split(line, '\t');
					s.cur_k = strtoll(f[1].c_str(), NULL, 10);
					s.cur_seed = strtoull(f[2].c_str(), NULL, 10);
					s.cur_start = now;
				}
				else if (line[0] == 'R')
				{
					uint64_t k, seed; RunResult r;
					if (parse_result(line, k, seed, r))
					{
						ps.evaluations++;
						ps.steps += r.steps; ps.sim_ms += r.sim_ms;
						ps.fp_by_k[k] = r.fingerprint;
						ps.distinct_all.insert(r.fingerprint);
						if (r.excluded) ps.excluded++;
						else if (r.nontrivial) ps.distinct_nontrivial.insert(r.fingerprint);
						if (!r.ok())
						{
							Candidate c; c.k = k; c.seed = seed; c.res = r;
							ps.cands.push_back(c);
						}
						s.next_first = k + 1;
					}
					s.cur_k = -1;
				}
				else if (line[0] == 'C')
				{
					std::vector<std::string> f = split(line, '\t');
					if (f.size() >= 3)
					{
						uint64_t vv = strtoull(f[2].c_str(), NULL, 10);
						if (f[1].size() > 4 && f[1].compare(f[1].size() - 4, 4, "_max") == 0)
							ps.cnt[f[1]] = std::max(ps.cnt[f[1]], vv);
						else
							ps.cnt[f[1]] += vv;
					}
				}
				else if (line[0] == 'P')
				{
					if (ps.samples.size() < 6) ps.samples.push_back(unesc_line(line.substr(2)));
				}
				else if (line[0] == 'E')
					s.finished = true;
			}
			// watchdog
			if (!eof && s.cur_k >= 0 && now - s.cur_start > run_timeout)
			{
				kill(s.pid, SIGKILL);
				int st; waitpid(s.pid, &st, 0);
				close(s.fd); s.alive = false;
				Candidate c; c.k = s.cur_k; c.seed = s.cur_seed; c.crashed = true;
				c.crash_class = "hang";
				ps.cands.push_back(c);
				uint64_t nf = (uint64_t)s.cur_k + W; // continue behind the stuck case
				if (nf < last && (deadline == 0 || now < deadline))
				{
					// worker index stays, stride W: restart with shifted first so that k=nf is next
					ws[idx[q]].index = idx[q];
					spawn_worker(s, W, base_seed, nf - idx[q], last, deadline);
				}
				continue;
			}
			if (eof)
			{
				int st = 0; waitpid(s.pid, &st, 0);
				close(s.fd); s.alive = false;
				if (!s.finished)
				{
					// died in the middle of case cur_k
					if (s.cur_k >= 0)
					{
						Candidate c; c.k = s.cur_k; c.seed = s.cur_seed; c.crashed = true;
						ChildOutcome co; co.status = st;
						c.crash_class = co.died_class();
						ps.cands.push_back(c);
						if (!quiet)
							fprintf(stderr, "[runner] worker %u died (%s) in case %lld seed %llu\n",
								idx[q], c.crash_class.c_str(), (long long)s.cur_k,
								(unsigned long long)s.cur_seed);
						uint64_t nf = (uint64_t)s.cur_k + W;
						if (nf < last && (deadline == 0 || now < deadline))
							spawn_worker(s, W, base_seed, nf - idx[q], last, deadline);
					}
					else
					{
						fprintf(stderr, "[runner] worker %u died outside a case (status %d)\n", idx[q], st);
						Candidate c; c.k = 0; c.seed = 0; c.crashed = true; c.crash_class = "worker_died_outside_case";
						ps.cands.push_back(c);
					}
				}
			}
		}
	}
}

static std::string json_counters(const Counters &c, const std::string &prefix, bool strip)
{
	std::ostringstream o; o << "{"; bool first = true;
	for (Counters::const_iterator it = c.begin(); it != c.end(); ++it)
	{
		if (it->first.compare(0, prefix.size(), prefix) != 0) continue;
		o << (first ? "" : ", ") << "\"" << jesc(strip ? it->first.substr(prefix.size()) : it->first)
		  << "\": " << it->second;
		first = false;
	}
	o << "}";
	return o.str();
}

int runner_main(int argc, char **argv, const Scenario &sc)
{
	g_sc = &sc;
	Options opt;
	const char *env_seed = getenv("VERIF_SEED");
	if (env_seed && *env_seed) opt.seed = strtoull(env_seed, NULL, 10);
	const char *env_tier = getenv("VERIF_TIER");
	if (env_tier && *env_tier) opt.tier = env_tier;
	bool seed_given = false;
	for (int i = 1; i < argc; i++)
	{
		std::string a = argv[i];
		std::string v = (i + 1 < argc) ? argv[i + 1] : "";
		if (a == "--prop") { opt.prop = v; i++; }
		else if (a == "--tier") { opt.tier = v; i++; }
		else if (a == "--seed") { opt.seed = strtoull(v.c_str(), NULL, 10); seed_given = true; i++; }
		else if (a == "--runs") { opt.runs = strtoull(v.c_str(), NULL, 10); i++; }
		else if (a == "--det") { opt.det = strtoull(v.c_str(), NULL, 10); i++; }
		else if (a == "--workers") { opt.workers = (unsigned)strtoul(v.c_str(), NULL, 10); i++; }
		else if (a == "--max-seconds") { opt.max_seconds = atof(v.c_str()); i++; }
		else if (a == "--run-timeout") { opt.run_timeout = atof(v.c_str()); i++; }
		else if (a == "--replay") { opt.replay = v; i++; }
		else if (a == "--evidence-part") { opt.evidence_part = v; i++; }
		else if (a == "--out-dir") { opt.out_dir = v; i++; }
		else if (a.compare(0, 2, "--") == 0) { opt.extra[a.substr(2)] = v; i++; }
	}
	(void)seed_given;
	if (opt.workers < 1) opt.workers = 1;
	g_tier.thorough = (opt.tier == "thorough");
	g_tier.property = opt.prop;
	g_tier.opt = opt.extra;
	signal(SIGPIPE, SIG_IGN);

	if (sc.worker_init)
		sc.worker_init(g_tier);

	if (opt.extra.count("dump-seed"))
	{
		uint64_t sd = strtoull(opt.extra["dump-seed"].c_str(), NULL, 10);
		Plan p = sc.generate(sd, g_tier); p.seed = sd; p.scenario = sc.name;
		if (p.property.empty()) p.property = opt.prop;
		printf("%s", p.to_text().c_str());
		return 0;
	}
	// ---------------------------------------------------------------- replay mode
	if (!opt.replay.empty())
	{
		std::ifstream f(opt.replay.c_str());
		if (!f) { fprintf(stderr, "cannot read %s\n", opt.replay.c_str()); return 2; }
		std::stringstream ss; ss << f.rdbuf();
		Plan p;
		if (!p.from_text(ss.str())) { fprintf(stderr, "bad replay file\n"); return 2; }
		ChildOutcome o = exec_in_child(p, opt.run_timeout);
		std::string cls = o.died ? ("crash:" + o.died_class()) : o.res.vclass;
		std::string vprop = o.died ? "C12" : o.res.vprop;
		printf("REPLAY scenario=%s seed=%llu recorded_class=%s class=%s recorded_fp=%s fp=%s detail=%s\n",
			p.scenario.c_str(), (unsigned long long)p.seed, p.vclass.c_str(),
			cls.empty() ? "-" : cls.c_str(), u64hex(p.fingerprint).c_str(),
			o.died ? "-" : u64hex(o.res.fingerprint).c_str(),
			o.died ? esc_line(o.errtail).c_str() : esc_line(o.res.detail).c_str());
		if (cls.empty())
		{
			printf("REPLAY-RESULT held\n");
			return 0;
		}
		bool same = (cls == p.vclass) && (o.died || o.res.fingerprint == p.fingerprint);
		printf("REPLAY-RESULT %s\n", same ? "reproduced" : "violation_differs");
		printf("CANDIDATE property=%s class=%s sig=%s replay=%s\n", vprop.c_str(), cls.c_str(),
			(o.died ? ("crash:" + o.died_class()) : o.res.sig).c_str(), opt.replay.c_str());
		return same ? 1 : 3;
	}

	// ---------------------------------------------------------------- exploration
	if (sc.enumerate)
	{
		sc.enumerate(g_tier, g_enum);
		for (size_t i = 0; i < g_enum.size(); i++)
		{
			g_enum[i].scenario = sc.name;
			if (g_enum[i].property.empty()) g_enum[i].property = opt.prop;
		}
	}
	uint64_t total = g_enum.size() + opt.runs;
	double t0 = wall();
	PassStats ps;
	run_pass(opt.workers, opt.seed, 0, total, opt.max_seconds, opt.run_timeout, ps, false);
	double t_main = wall() - t0;

	// determinism proof: re-run the first det cases with another worker count
	uint64_t det_n = std::min<uint64_t>(opt.det, total), det_checked = 0, det_mismatch = 0;
	int exit_code = 0;
	if (det_n > 0)
	{
		PassStats ps2;
		unsigned W2 = (opt.workers > 3) ? 3 : 1;
		run_pass(W2, opt.seed, 0, det_n, 0, opt.run_timeout, ps2, true);
		for (std::map<uint64_t, uint64_t>::iterator it = ps2.fp_by_k.begin(); it != ps2.fp_by_k.end(); ++it)
		{
			std::map<uint64_t, uint64_t>::iterator jt = ps.fp_by_k.find(it->first);
			if (jt == ps.fp_by_k.end()) continue;
			det_checked++;
			if (jt->second != it->second)
			{
				det_mismatch++;
				printf("NONDETERMINISM scenario=%s case=%llu fp1=%s fp2=%s\n", sc.name.c_str(),
					(unsigned long long)it->first, u64hex(jt->second).c_str(), u64hex(it->second).c_str());
			}
		}
		if (det_mismatch) exit_code = 2;
	}

	// ---------------------------------------------------------------- candidates
	mkdir(opt.out_dir.c_str(), 0755);
	std::set<std::string> seen_sig;
	unsigned reported = 0, gate_fail = 0;
	std::sort(ps.cands.begin(), ps.cands.end(),
		[](const Candidate &a, const Candidate &b){ return a.k < b.k; });
	std::ostringstream cand_json;
	for (size_t ci = 0; ci < ps.cands.size(); ci++)
	{
		Candidate &c = ps.cands[ci];
		if (c.crash_class == "worker_died_outside_case") { exit_code = 2; continue; }
		std::string sig0 = c.crashed ? ("crash:" + c.crash_class) : c.res.sig;
		// one full treatment per distinct signature, at most 6 per run
		if (seen_sig.count(sig0) || reported >= 6)
			continue;
		Plan p = plan_for_case(opt.seed, c.k);
		// gate 1: same seed twice
		ChildOutcome o1 = exec_in_child(p, opt.run_timeout);
		VioKey key;
		if (c.crashed)
		{
			key.vprop = "C12"; key.vclass = "crash:" + c.crash_class;
			if (!key.same(o1))
			{
				// a hang found by the watchdog shows up as 'hang' only if the alarm fires
				if (o1.died) { key.vclass = "crash:" + o1.died_class(); }
				else if (c.crash_class == "hang")
				{
					// the run time-out is the one wall-clock dependency of the machinery: a case that was cut off while
					// all workers competed for the machine and completes in a fresh process is no hang (the plan is a
					// pure function of its seed), and no sign of non-determinism either
					printf("TIMEOUT-NOT-REPRODUCED scenario=%s case=%llu: cut off by the run time-out under load, completed in a fresh process\n",
						sc.name.c_str(), (unsigned long long)c.k);
					continue;
				}
				else
				{
					printf("GATE-FAIL scenario=%s case=%llu: crash (%s) did not reproduce in a fresh process\n",
						sc.name.c_str(), (unsigned long long)c.k, c.crash_class.c_str());
					gate_fail++; continue;
				}
			}
		}
		else
		{
			key.vprop = c.res.vprop; key.vclass = c.res.vclass;
			if (!key.same(o1) || o1.res.fingerprint != c.res.fingerprint)
			{
				printf("GATE-FAIL scenario=%s case=%llu: violation %s did not reproduce identically "
					"(fp %s vs %s)\n", sc.name.c_str(), (unsigned long long)c.k, c.res.vclass.c_str(),
					u64hex(c.res.fingerprint).c_str(), o1.died ? "died" : u64hex(o1.res.fingerprint).c_str());
				gate_fail++; continue;
			}
		}
		if (seen_sig.count(key.vprop + "/" + key.vclass))
			continue;
		seen_sig.insert(sig0);
		seen_sig.insert(key.vprop + "/" + key.vclass);
		unsigned reruns = 0;
		unsigned budget = g_tier.thorough ? 200 : 80;
		Plan m = minimise(p, key, budget, opt.run_timeout, reruns);
		ChildOutcome om = exec_in_child(m, opt.run_timeout);
		if (!key.same(om)) { m = p; om = o1; }
		m.vprop = key.vprop; m.vclass = key.vclass;
		m.sig = om.died ? key.vclass : om.res.sig;
		m.fingerprint = om.died ? 0 : om.res.fingerprint;
		std::string detail = om.died ? om.errtail : om.res.detail;
		char path[512];
		snprintf(path, sizeof(path), "%s/%s-%s-%llu-%s.replay", opt.out_dir.c_str(), key.vprop.c_str(),
			sc.name.c_str(), (unsigned long long)m.seed, u64hex(m.fingerprint).substr(8).c_str());
		{
			std::ofstream f(path);
			f << m.to_text();
			f << "# class: " << key.vclass << "\n# detail: " << esc_line(detail) << "\n";
			f << "# original ops: " << p.ops.size() << ", minimised ops: " << m.ops.size()
			  << ", shrink re-runs: " << reruns << "\n";
		}
		// gate 2: replay the file in a fresh process
		std::string cmd = std::string(argv[0]) + " --prop " + opt.prop + " --tier " + opt.tier +
			" --replay " + path + " > /dev/null 2>&1";
		for (std::map<std::string, std::string>::iterator it = opt.extra.begin(); it != opt.extra.end(); ++it)
			cmd = std::string(argv[0]) + " --" + it->first + " " + it->second + cmd.substr(strlen(argv[0]));
		int rc = system(cmd.c_str());
		if (!(WIFEXITED(rc) && WEXITSTATUS(rc) == 1))
		{
			printf("GATE-FAIL scenario=%s case=%llu: replay file %s did not reproduce (rc=%d)\n",
				sc.name.c_str(), (unsigned long long)c.k, path, rc);
			gate_fail++; continue;
		}
		reported++;
		printf("CANDIDATE property=%s class=%s sig=%s replay=%s ops=%zu/%zu reruns=%u detail=%s\n",
			key.vprop.c_str(), key.vclass.c_str(), m.sig.c_str(), path, m.ops.size(), p.ops.size(),
			reruns, esc_line(detail.substr(0, 600)).c_str());
		cand_json << (reported > 1 ? ", " : "") << "{\"property\": \"" << key.vprop << "\", \"class\": \""
			<< jesc(key.vclass) << "\", \"sig\": \"" << jesc(m.sig) << "\", \"replay\": \"" << jesc(path)
			<< "\", \"ops_before\": " << p.ops.size() << ", \"ops_after\": " << m.ops.size()
			<< ", \"shrink_reruns\": " << reruns << "}";
	}
	// a violation that passed the gate is reported as such (exit 1) even if another candidate of the
	// same batch did not replay (typically undefined behaviour of a memory-unsafe tree in the plain build)
	if (gate_fail && reported == 0) exit_code = 2;
	uint64_t n_viol = ps.cands.size();

	double t_all = wall() - t0;
	// ---------------------------------------------------------------- evidence part
	if (!opt.evidence_part.empty())
	{
		std::ofstream f(opt.evidence_part.c_str());
		f << "{\n";
		f << " \"scenario\": \"" << jesc(sc.name) << "\",\n";
		f << " \"property_id\": \"" << jesc(opt.prop) << "\",\n";
		f << " \"tier\": \"" << jesc(opt.tier) << "\",\n";
		f << " \"seed\": " << opt.seed << ",\n";
		f << " \"evaluations\": " << ps.evaluations << ",\n";
		f << " \"enumerated_cases\": " << g_enum.size() << ",\n";
		f << " \"seeded_cases\": " << opt.runs << ",\n";
		f << " \"distinct_nontrivial\": " << ps.distinct_nontrivial.size() << ",\n";
		f << " \"distinct_fingerprints\": " << ps.distinct_all.size() << ",\n";
		f << " \"excluded_runs\": " << ps.excluded << ",\n";
		f << " \"rule\": \"" << jesc(sc.rule) << "\",\n";
		f << " \"samples\": [";
		for (size_t i = 0; i < ps.samples.size(); i++)
			f << (i ? ", " : "") << "\"" << jesc(ps.samples[i]) << "\"";
		f << "],\n";
		f << " \"steps\": " << ps.steps << ",\n";
		f << " \"simulated_seconds\": " << (ps.sim_ms / 1000) << ",\n";
		f << " \"wall_s\": " << t_all << ",\n";
		f << " \"wall_s_exploration\": " << t_main << ",\n";
		f << " \"runs_per_hour\": " << (uint64_t)(t_main > 0 ? ps.evaluations * 3600.0 / t_main : 0) << ",\n";
		f << " \"workers\": " << opt.workers << ",\n";
		f << " \"faults_fired\": " << json_counters(ps.cnt, "fault.", true) << ",\n";
		f << " \"probes\": " << json_counters(ps.cnt, "probe.", true) << ",\n";
		f << " \"counters\": " << json_counters(ps.cnt, "", false) << ",\n";
		f << " \"determinism\": {\"cases_rerun\": " << det_checked << ", \"mismatches\": " << det_mismatch
		  << ", \"worker_counts\": [" << opt.workers << ", " << ((opt.workers > 3) ? 3 : 1) << "]},\n";
		f << " \"violating_runs\": " << n_viol << ",\n";
		f << " \"gate_failures\": " << gate_fail << ",\n";
		f << " \"candidates\": [" << cand_json.str() << "],\n";
		f << " \"real_components\": \"" << jesc(sc.real_components) << "\",\n";
		f << " \"stub_components\": \"" << jesc(sc.stub_components) << "\"\n";
		f << "}\n";
	}
	printf("SUMMARY scenario=%s prop=%s tier=%s seed=%llu evaluations=%llu distinct_nontrivial=%zu "
		"excluded=%llu violating_runs=%llu candidates=%u det=%llu/%llu wall=%.1fs\n", sc.name.c_str(),
		opt.prop.c_str(), opt.tier.c_str(), (unsigned long long)opt.seed,
		(unsigned long long)ps.evaluations, ps.distinct_nontrivial.size(),
		(unsigned long long)ps.excluded, (unsigned long long)n_viol, reported,
		(unsigned long long)(det_checked - det_mismatch), (unsigned long long)det_checked, t_all);
	if (reported > 0 && det_mismatch == 0)
		exit_code = 1;
	return exit_code;
}

} // namespace sim
