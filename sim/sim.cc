// tmcgsim core implementation + link-time seams for clock and randomness.
#include "sim.hh"
#include <gcrypt.h>
#include <unistd.h>
#include <stdexcept>

namespace sim {

Sim *g_sim = NULL;

Sim::Sim(uint64_t seed_in, size_t nparties)
	: seed(seed_in), now_ms(0), base_s(1500000000), steps(0), max_steps(2000000),
	  aborting(false), deadlocked(false), step_budget_hit(false), single_party(0),
	  single_skew_s(0), coin_party(-1), coin_used(0), evseq(0), cur(NULL), sched_go(false)
{
	gen.seed(derive(seed, 1));
	sched.seed(derive(seed, 2));
	net.seed(derive(seed, 3));
	fault.seed(derive(seed, 4));
	party.resize(nparties);
	for (size_t i = 0; i < nparties; i++)
		party[i].seed(derive(seed, 100 + i));
	g_sim = this;
}

Sim::~Sim()
{
	// unwind tasks that are still parked
	bool live = false;
	for (size_t i = 0; i < tasks.size(); i++)
		if (tasks[i]->state != Task::DONE)
			live = true;
	if (live)
	{
		aborting = true;
		for (size_t i = 0; i < tasks.size(); i++)
		{
			Task *t = tasks[i];
			while (t->state != Task::DONE)
			{
				t->aborted = true; // next return from to_scheduler throws SimAbort
				cur = t;
				resume(t);
				cur = NULL;
			}
		}
	}
	for (size_t i = 0; i < tasks.size(); i++)
	{
		if (tasks[i]->th.joinable())
			tasks[i]->th.join();
		delete tasks[i];
	}
	if (g_sim == this)
		g_sim = NULL;
}

void Sim::at(int64_t t_ms, std::function<void()> fn)
{
	Event e; e.t = (t_ms < now_ms) ? now_ms : t_ms; e.seq = ++evseq; e.fn = fn;
	evq.push(e);
}

bool Sim::run_due_events()
{
	bool any = false;
	while (!evq.empty() && evq.top().t <= now_ms)
	{
		Event e = evq.top(); evq.pop();
		hist.add(H_EVENT, (uint64_t)e.t, e.seq);
		e.fn();
		any = true;
	}
	return any;
}

bool Sim::advance_clock()
{
	int64_t next = -1;
	if (!evq.empty())
		next = evq.top().t;
	for (size_t i = 0; i < tasks.size(); i++)
	{
		Task *t = tasks[i];
		if (t->state == Task::BLOCKED && t->wake_ms >= 0)
			if (next < 0 || t->wake_ms < next)
				next = t->wake_ms;
	}
	if (next < 0)
		return false;
	if (next > now_ms)
	{
		now_ms = next;
		hist.add(H_CLOCK, (uint64_t)now_ms);
	}
	return true;
}

static int64_t abort_bump = 0;

time_t Sim::time_now() const
{
	int64_t skew = cur ? cur->skew_s : single_skew_s;
	int64_t t = base_s + now_ms / 1000 + skew;
	if (aborting)
	{
		abort_bump += 1000; // every deadline of an unwinding task expires at once
		t += abort_bump;
	}
	return (time_t)t;
}

int Sim::cur_party() const
{
	return cur ? cur->party : single_party;
}

void Sim::random_bytes(unsigned char *buf, size_t len)
{
	int p = cur_party();
	if (p < 0 || (size_t)p >= party.size())
		p = 0;
	size_t i = 0;
	if (p == coin_party)
	{
		while (i < len && !coin_bytes.empty())
		{
			buf[i++] = coin_bytes.front();
			coin_bytes.pop_front();
			coin_used++;
		}
	}
	if (i < len)
		party[p].fill(buf + i, len - i);
}

// ------------------------------------------------------------------ tasks
int Sim::spawn(const std::string &name, int party_in, std::function<void()> fn, unsigned weight)
{
	Task *t = new Task();
	t->id = (int)tasks.size();
	t->name = name;
	t->party = party_in;
	t->fn = fn;
	t->weight = weight ? weight : 1;
	t->state = Task::RUNNABLE;
	tasks.push_back(t);
	hist.add(H_SPAWN, t->id, party_in);
	t->th = std::thread(&Sim::task_main, this, t);
	return t->id;
}

void Sim::task_main(Task *t)
{
	{ // wait for first baton
		std::unique_lock<std::mutex> lk(t->mu);
		t->cv.wait(lk, [t]{ return t->go; });
		t->go = false;
	}
	try
	{
		if (!t->aborted)
			t->fn();
	}
	catch (SimAbort &) { }
	catch (std::exception &e) { t->failure = std::string("std::exception: ") + e.what(); }
	catch (bool b) { t->failure = b ? "bool:true" : "bool:false"; }
	catch (...) { t->failure = "unknown exception"; }
	t->state = Task::DONE;
	hist.add(H_DONE, t->id);
	// hand the baton back for good
	std::unique_lock<std::mutex> lk(smu);
	sched_go = true;
	scv.notify_one();
}

void Sim::resume(Task *t)
{
	{
		std::unique_lock<std::mutex> lk(t->mu);
		t->go = true;
		t->cv.notify_one();
	}
	std::unique_lock<std::mutex> lk(smu);
	scv.wait(lk, [this]{ return sched_go; });
	sched_go = false;
}

void Sim::to_scheduler(Task *t)
{
	t->spin = 0;
	{
		std::unique_lock<std::mutex> lk(smu);
		sched_go = true;
		scv.notify_one();
	}
	std::unique_lock<std::mutex> lk(t->mu);
	t->cv.wait(lk, [t]{ return t->go; });
	t->go = false;
	if (t->aborted)
		throw SimAbort();
}

void Sim::yield()
{
	Task *t = cur;
	if (!t)
		return;
	t->state = Task::RUNNABLE;
	to_scheduler(t);
}

bool Sim::block_until(std::function<bool()> pred, int64_t deadline_ms)
{
	Task *t = cur;
	if (!t)
		return pred();
	if (aborting)
	{
		// unwinding: never block, but still give the baton back once
		t->state = Task::RUNNABLE;
		to_scheduler(t);
		return pred();
	}
	t->ready = pred;
	t->wake_ms = deadline_ms;
	t->state = Task::BLOCKED;
	to_scheduler(t);
	t->ready = nullptr;
	t->wake_ms = -1;
	return pred();
}

void Sim::run()
{
	std::vector<Task*> runnable;
	uint64_t abort_steps = 0;
	struct Joiner { Sim *s; ~Joiner() { for (size_t i = 0; i < s->tasks.size(); i++)
		if (s->tasks[i]->state == Task::DONE && s->tasks[i]->th.joinable()) s->tasks[i]->th.join(); } } joiner = { this };
	for (;;)
	{
		run_due_events();
		runnable.clear();
		bool all_done = true;
		uint64_t total_w = 0;
		for (size_t i = 0; i < tasks.size(); i++)
		{
			Task *t = tasks[i];
			if (t->state == Task::DONE)
				continue;
			all_done = false;
			bool ok = false;
			if (t->state == Task::RUNNABLE)
				ok = true;
			else if (t->state == Task::BLOCKED)
			{
				if (aborting)
					ok = true;
				else if (t->wake_ms >= 0 && t->wake_ms <= now_ms)
					ok = true;
				else if (t->ready && t->ready())
					ok = true;
			}
			if (ok)
			{
				runnable.push_back(t);
				total_w += t->weight;
			}
		}
		if (all_done)
			break;
		if (runnable.empty())
		{
			if (advance_clock())
				continue;
			// nobody can move and nothing is scheduled
			if (!deadlocked && on_deadlock)
			{
				deadlocked = true;
				count("sim.deadlock_resolved");
				hist.add(H_EOF, 1);
				on_deadlock();
				continue;
			}
			aborting = true;
			count("sim.abort_stuck");
			continue;
		}
		// weighted seeded choice
		Task *pick = runnable[0];
		if (runnable.size() > 1)
		{
			uint64_t r = sched.below(total_w);
			for (size_t i = 0; i < runnable.size(); i++)
			{
				if (r < runnable[i]->weight) { pick = runnable[i]; break; }
				r -= runnable[i]->weight;
			}
		}
		hist.add(H_SCHED, pick->id, runnable.size());
		steps++;
		pick->state = Task::RUNNABLE;
		cur = pick;
		resume(pick);
		cur = NULL;
		if (after_step)
			after_step();
		if (!aborting && steps > max_steps)
		{
			aborting = true;
			step_budget_hit = true;
			count("sim.step_budget_hit");
		}
		if (aborting && ++abort_steps > 200000)
		{
			// force unwinding by exception
			for (size_t i = 0; i < tasks.size(); i++)
				if (tasks[i]->state != Task::DONE)
					tasks[i]->aborted = true;
		}
	}
}

} // namespace sim

// ---------------------------------------------------------------- link-time seams
extern "C" {

time_t __real_time(time_t *t);
unsigned int __real_sleep(unsigned int s);
void __real_gcry_randomize(void *buf, size_t len, enum gcry_random_level level);
void __real_gcry_create_nonce(void *buf, size_t len);
void __real_gcry_mpi_randomize(gcry_mpi_t w, unsigned int nbits, enum gcry_random_level level);

time_t __wrap_time(time_t *t)
{
	if (!sim::g_sim)
		return __real_time(t);
	// busy-wait guard: code that polls the clock for a deadline without ever blocking (a loop of the form
	// do { ... } while (time(NULL) < entry + timeout) whose body finds nothing to wait for) makes progress on
	// a real machine because time passes; here one simulated second passes after 4096 reads in a row
	sim::Task *ct = sim::g_sim->current();
	if (ct && !sim::g_sim->aborting && ++ct->spin > 4096)
	{
		sim::g_sim->count("seam.spin_guard");
		sim::g_sim->sleep_ms(1000);
	}
	time_t v = sim::g_sim->time_now();
	if (t)
		*t = v;
	return v;
}

unsigned int __wrap_sleep(unsigned int s)
{
	if (!sim::g_sim)
		return __real_sleep(s);
	sim::Sim *S = sim::g_sim;
	S->count("seam.sleep");
	if (S->in_task())
		S->sleep_ms((int64_t)s * 1000);
	else
	{
		S->now_ms += (int64_t)s * 1000; // single-threaded scenario: time simply passes
		S->hist.add(sim::H_CLOCK, (uint64_t)S->now_ms);
	}
	return 0;
}

void __wrap_gcry_randomize(void *buf, size_t len, enum gcry_random_level level)
{
	if (!sim::g_sim)
	{
		__real_gcry_randomize(buf, len, level);
		return;
	}
	sim::g_sim->random_bytes((unsigned char*)buf, len);
}

void __wrap_gcry_create_nonce(void *buf, size_t len)
{
	if (!sim::g_sim)
	{
		__real_gcry_create_nonce(buf, len);
		return;
	}
	sim::g_sim->random_bytes((unsigned char*)buf, len);
}

void __wrap_gcry_mpi_randomize(gcry_mpi_t w, unsigned int nbits, enum gcry_random_level level)
{
	if (!sim::g_sim)
	{
		__real_gcry_mpi_randomize(w, nbits, level);
		return;
	}
	// same contract as libgcrypt: (nbits+7)/8 random bytes, no masking of the top bits
	size_t nbytes = (nbits + 7) / 8;
	std::vector<unsigned char> tmp(nbytes ? nbytes : 1);
	sim::g_sim->random_bytes(&tmp[0], nbytes);
	gcry_mpi_t v = NULL;
	if (gcry_mpi_scan(&v, GCRYMPI_FMT_USG, &tmp[0], nbytes, NULL) == 0)
	{
		gcry_mpi_set(w, v);
		gcry_mpi_release(v);
	}
}

} // extern "C"
