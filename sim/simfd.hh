// SimFd: simulated file descriptors (byte pipes) behind the wrapped read/write/select/fcntl.
// Descriptors 600..1023 are simulated (the library requires fd < FD_SETSIZE), others pass through.
#ifndef TMCGSIM_SIMFD_HH
#define TMCGSIM_SIMFD_HH

#include "sim.hh"

namespace sim {

struct SimPipe
{
	int rfd, wfd;
	std::deque<unsigned char> vis;      // visible to the reader
	std::deque<unsigned char> flight;   // accepted from the writer, not yet visible
	size_t capacity;                    // writer sees "not writable" beyond this many pending bytes
	bool wclosed;                       // writer side closed: reader gets EOF after vis is drained
	bool auto_visible;                  // accepted bytes become visible at once
	uint64_t total_written, total_read;
	// scripted outcomes of the next calls: >0 = at most that many bytes, <0 = fail with errno -x
	std::deque<int> read_script, write_script;
	// mutation hook applied to bytes as they are accepted from the writer
	std::function<void(SimPipe &, std::string &)> wire;
	std::string wirelog;                // everything the writer put on the wire (before mutation)
	uint64_t n_read_calls, n_write_calls, n_short_reads, n_short_writes;
	SimPipe() : rfd(-1), wfd(-1), capacity(1 << 20), wclosed(false), auto_visible(true),
		total_written(0), total_read(0), n_read_calls(0), n_write_calls(0), n_short_reads(0),
		n_short_writes(0) {}
	// make up to k in-flight bytes visible (k = 0: all)
	size_t release(size_t k = 0)
	{
		size_t c = 0;
		while (!flight.empty() && (k == 0 || c < k))
		{
			vis.push_back(flight.front()); flight.pop_front(); c++;
		}
		return c;
	}
};

class FdTable
{
public:
	std::map<int, SimPipe*> rd, wr;
	std::vector<SimPipe*> pipes;
	int next_fd;
	bool select_eintr_next;
	FdTable() : next_fd(600), select_eintr_next(false) {}
	~FdTable();
	SimPipe *make_pipe();               // allocates a read and a write descriptor
	void activate();                    // install as the table the wrappers consult
	void deactivate();
};

extern FdTable *g_fdt;

} // namespace sim

#endif
