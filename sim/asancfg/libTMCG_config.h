/* Shadow of the generated configuration header, used by the sanitizer flavour only (this directory
   precedes /repo on the include path there).  The generated header defines TMCG_MAX_STACK_CHARS
   unconditionally (671 MB: every import of a stack or stack secret allocates a line buffer of that
   size, which AddressSanitizer has to poison and unpoison), so a -D on the command line has no
   effect.  4 MB hold every line the scenarios produce (stacks of up to 300 cards). */
#include_next "libTMCG_config.h"
#undef TMCG_MAX_STACK_CHARS
#define TMCG_MAX_STACK_CHARS 4194304UL
