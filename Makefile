# Build of /repo/src (always from the current working tree) + tmcgsim harness.
# Two flavours: plain (-O2) and asan (-O1, ASan+UBSan, reduced TMCG_MAX_STACK_CHARS).
REPO    ?= /repo
SRC     := $(REPO)/src
B       := build
GUARD   := -DLIBTMCG_VERIF_SIM

LIBSRC  := $(filter-out $(SRC)/gen_primes.cc,$(wildcard $(SRC)/*.cc))
LIBNAMES:= $(notdir $(LIBSRC:.cc=))
# OpenPGP object is linked only into the pgp/torn binaries (77 s to compile under ASan)
CORE_NAMES := $(filter-out CallasDonnerhackeFinneyShawThayerRFC4880 libTMCG,$(LIBNAMES))

CXX      := g++
CPPFLAGS := -DHAVE_CONFIG_H $(GUARD) -I$(REPO) -I$(SRC) -Isim
WARN     := -w
PLAIN_FLAGS := -O2 -g1 -pthread $(WARN)
ASAN_FLAGS  := -O1 -g1 -pthread $(WARN) -fsanitize=address,undefined -fno-omit-frame-pointer \
               -fno-sanitize-recover=undefined -fno-sanitize=enum,vla-bound -DTMCG_MAX_STACK_CHARS=4194304
# The -D covers translation units that do not include the generated libTMCG_config.h (the scenarios: the
# macro in libTMCG.hh is #ifndef-guarded); the library sources include that header, which defines the macro
# unconditionally - for them sim/asancfg shadows it (it must precede -I$(REPO))
ASAN_PRE    := -Isim/asancfg
LIBS     := -lgmp -lgcrypt -lgpg-error -lpthread

WRAPS := time sleep read write select fcntl gcry_randomize gcry_create_nonce gcry_mpi_randomize
WRAPFLAGS := $(foreach w,$(WRAPS),-Wl,--wrap=$(w))

SIMHDR := $(wildcard sim/*.hh)
SCENS  := $(basename $(notdir $(wildcard scen/*.cc)))

PLAIN_LIBOBJ := $(foreach n,$(CORE_NAMES),$(B)/plain/lib/$(n).o)
ASAN_LIBOBJ  := $(foreach n,$(CORE_NAMES),$(B)/asan/lib/$(n).o)
PLAIN_PGPOBJ := $(B)/plain/lib/CallasDonnerhackeFinneyShawThayerRFC4880.o
ASAN_PGPOBJ  := $(B)/asan/lib/CallasDonnerhackeFinneyShawThayerRFC4880.o

PGP_SCENS := pgp torn

.PHONY: all libs clean plain asan
all: plain asan
plain: $(foreach s,$(SCENS),$(B)/plain/$(s))
asan:  $(foreach s,$(SCENS),$(B)/asan/$(s))
libs: $(PLAIN_LIBOBJ) $(ASAN_LIBOBJ) $(PLAIN_PGPOBJ) $(ASAN_PGPOBJ)

$(B)/plain/lib/%.o: $(SRC)/%.cc
	@mkdir -p $(dir $@)
	$(CXX) $(CPPFLAGS) $(PLAIN_FLAGS) -MMD -MP -c $< -o $@
$(B)/asan/lib/%.o: $(SRC)/%.cc
	@mkdir -p $(dir $@)
	$(CXX) $(ASAN_PRE) $(CPPFLAGS) $(ASAN_FLAGS) -MMD -MP -c $< -o $@

$(B)/plain/sim/%.o: sim/%.cc $(SIMHDR)
	@mkdir -p $(dir $@)
	$(CXX) $(CPPFLAGS) $(PLAIN_FLAGS) -MMD -MP -c $< -o $@
$(B)/asan/sim/%.o: sim/%.cc $(SIMHDR)
	@mkdir -p $(dir $@)
	$(CXX) $(ASAN_PRE) $(CPPFLAGS) $(ASAN_FLAGS) -MMD -MP -c $< -o $@

$(B)/plain/scen/%.o: scen/%.cc $(SIMHDR)
	@mkdir -p $(dir $@)
	$(CXX) $(CPPFLAGS) $(PLAIN_FLAGS) -MMD -MP -c $< -o $@
$(B)/asan/scen/%.o: scen/%.cc $(SIMHDR)
	@mkdir -p $(dir $@)
	$(CXX) $(ASAN_PRE) $(CPPFLAGS) $(ASAN_FLAGS) -MMD -MP -c $< -o $@

SIMOBJ_NAMES := $(basename $(notdir $(wildcard sim/*.cc)))
PLAIN_SIMOBJ := $(foreach n,$(SIMOBJ_NAMES),$(B)/plain/sim/$(n).o)
ASAN_SIMOBJ  := $(foreach n,$(SIMOBJ_NAMES),$(B)/asan/sim/$(n).o)

define LINKRULE
$(B)/plain/$(1): $(B)/plain/scen/$(1).o $$(PLAIN_SIMOBJ) $$(PLAIN_LIBOBJ) $(if $(filter $(1),$(PGP_SCENS)),$$(PLAIN_PGPOBJ))
	$$(CXX) $$(PLAIN_FLAGS) $$(WRAPFLAGS) $$^ $$(LIBS) -o $$@
$(B)/asan/$(1): $(B)/asan/scen/$(1).o $$(ASAN_SIMOBJ) $$(ASAN_LIBOBJ) $(if $(filter $(1),$(PGP_SCENS)),$$(ASAN_PGPOBJ))
	$$(CXX) $$(ASAN_FLAGS) $$(WRAPFLAGS) $$^ $$(LIBS) -o $$@
endef
$(foreach s,$(SCENS),$(eval $(call LINKRULE,$(s))))

clean:
	rm -rf $(B)

-include $(wildcard $(B)/*/lib/*.d) $(wildcard $(B)/*/sim/*.d) $(wildcard $(B)/*/scen/*.d)
