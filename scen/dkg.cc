// Scenario dkg (C15, C16, multi-party part of C17, restart part of C11): the synchronous n-party
// protocols - Pedersen VSS, New-DKG (+ threshold Schnorr), Canetti et al. DKG/DSS with refresh, the
// multi-party coin flip - each party a task running the library's blocking calls over the real
// reliable broadcast; two SimUnicast nets (private channels / broadcast transport) underneath.
#include "common.hh"
#include "simunicast.hh"
#include "stackunicast.hh"
// fraction of full-stack runs: one in eight; one in 48 in the sanitizer flavour, where a run with n*n real
// endpoints costs seconds (allocation and poisoning of their buffers)
#if defined(__SANITIZE_ADDRESS__)
#define FULLSTACK_ONE_IN 48
#else
#define FULLSTACK_ONE_IN 8
#endif
#include <memory>
#include <algorithm>
#include <set>

using namespace sim;

namespace {

static void dkg_init(const Tier &) { build_group_pool(2, false); }

enum { PR_GJKR = 0, PR_VSS, PR_CGJKR_DKG, PR_DSS, PR_FLIP, PR_RVSS, PR_NUM };

struct PartyOut
{
	bool honest, finished;
	int fmode;                     // faulty: 0 library switch, 1 silent from the start, 2 crash after k sends, 3 byzantine links
	std::vector<int> rets;         // return values of the protocol calls in order
	std::string qual, y, y2, x_i, xprime_i, coin;
	std::vector<std::string> v_i;
	std::vector<std::pair<std::string, std::string> > sigs; // signatures (c,s) / (r,s)
	std::vector<std::string> sig_msgs;
	std::vector<std::string> vss_out; // reconstructed secrets per dealer
	std::vector<int> vss_share_ret, vss_rec_ret;
	std::string x_i_before_refresh, y_before_refresh;
	std::string state_mismatch;    // non-empty: PublishState -> ctor -> PublishState differs
	std::string errlog;
	int restarts;
	PartyOut() : honest(true), finished(false), fmode(0), restarts(0) {}
};

// a log whose lines start with the simulated time ("@<ms> "): the order of events across the parties' logs
struct StampBuf : public std::streambuf
{
	Sim *S; std::string text; bool bol;
	StampBuf() : S(NULL), bol(true) {}
	virtual int_type overflow(int_type c)
	{
		if (c == traits_type::eof()) return traits_type::not_eof(c);
		if (text.size() > (8u << 20)) return c; // a party that logs without end (e.g. a damaged stream underneath) is cut off
		if (bol) { text += "@" + std::to_string(S ? (long long)S->now_ms : 0LL) + " "; bol = false; }
		text.push_back((char)c); if (c == '\n') bol = true;
		return c;
	}
	virtual std::streamsize xsputn(const char *p, std::streamsize n) { for (std::streamsize i = 0; i < n; i++) overflow((unsigned char)p[i]); return n; }
};

struct World
{
	const Plan &plan;
	Sim S;
	const Grp *G;
	size_t n, t, trbc, tprime; // t: threshold of the protocol; trbc <= (n-1)/3: resilience of the broadcast and bound on faulty parties
	int proto;
	time_t Tu, Tb;
	std::vector<PartyOut> out;
	std::unique_ptr<Net> unet, bnet;
	// full stack: the library's aiounicast_select over simulated descriptors in place of SimUnicast
	bool fullstack;
	std::unique_ptr<FdTable> fdt;
	std::unique_ptr<Stack> ustack, bstack;
	std::vector<int> faulty;       // 0 honest, else 1 + fault mode
	std::vector<uint64_t> sendctr;
	std::vector<Z> msgs;           // messages (hash values) to sign
	Z vss_secret;
	RunResult res;
	CerrCapture cap;
	World(const Plan &p) : plan(p), S(p.seed, 10), G(NULL), n(4), t(1), trbc(1), tprime(1), proto(0), Tu(1), Tb(30), fullstack(false) {}
	void violate(const std::string &prop, const std::string &cls, const std::string &d)
	{
		std::ostringstream c; c << " [proto=" << proto << " n=" << n << " t=" << t << " trbc=" << trbc << (proto == PR_RVSS ? " tprime=" + std::to_string(tprime) : std::string()) << " faulty=";
		for (size_t i = 0; i < n; i++) if (faulty[i]) c << i << ":" << (faulty[i] - 1) << " ";
		c << "group=" << G->fs << "/" << G->ss << " Tu=" << Tu << " Tb=" << Tb << "]";
		res.violate(prop, cls, "dkg:" + cls, d + c.str());
	}
};

static std::string zs(mpz_srcptr a) { char *c = mpz_get_str(NULL, 16, a); std::string s(c); free(c); return s; }
static std::string qual_str(const std::vector<size_t> &q) { std::ostringstream o; for (size_t i = 0; i < q.size(); i++) o << q[i] << ","; return o.str(); }

// PublishState -> destroy -> stream constructor -> PublishState must reproduce the text (C11)
template<class T> static void restart(World &W, PartyOut &po, std::unique_ptr<T> &obj, const char *what)
{
	std::ostringstream s1; obj->PublishState(s1);
	std::istringstream in(s1.str());
	std::unique_ptr<T> fresh(new T(in, W.G->fs, W.G->ss, false, false));
	std::ostringstream s2; fresh->PublishState(s2);
	po.restarts++;
	if (s1.str() != s2.str())
	{
		size_t k = 0; while (k < s1.str().size() && k < s2.str().size() && s1.str()[k] == s2.str()[k]) k++;
		po.state_mismatch = std::string(what) + ": persisted state differs after restore at byte " + std::to_string(k);
	}
	obj.swap(fresh);
}
static void restart_vss(World &W, PartyOut &po, std::unique_ptr<PedersenVSS> &obj)
{
	std::ostringstream s1; obj->PublishState(s1);
	std::istringstream in(s1.str());
	std::unique_ptr<PedersenVSS> fresh(new PedersenVSS(in, W.G->fs, W.G->ss, false));
	std::ostringstream s2; fresh->PublishState(s2);
	po.restarts++;
	if (s1.str() != s2.str()) po.state_mismatch = "PedersenVSS: persisted state differs after restore";
	obj.swap(fresh);
}
static void restart_dss(World &W, PartyOut &po, std::unique_ptr<CanettiGennaroJareckiKrawczykRabinDSS> &obj)
{
	std::ostringstream s1; obj->PublishState(s1);
	std::istringstream in(s1.str());
	std::unique_ptr<CanettiGennaroJareckiKrawczykRabinDSS> fresh(new CanettiGennaroJareckiKrawczykRabinDSS(in, W.G->fs, W.G->ss, false, false));
	std::ostringstream s2; fresh->PublishState(s2);
	po.restarts++;
	if (s1.str() != s2.str()) po.state_mismatch = "CGJKR DSS: persisted state differs after restore";
	obj.swap(fresh);
}

static void party_main(World &W, size_t i)
{
	PartyOut &po = W.out[i];
	const Grp &G = *W.G;
	bool libfaulty = (W.faulty[i] == 1); // the library's own simulate_faulty_behaviour switch
	bool do_restart = ((W.plan.get("restart", 0) >> i) & 1) != 0;
	std::unique_ptr<aiounicast> aiou_p, aiou2_p;
	if (W.fullstack)
	{
		aiou_p.reset(new StackUnicast(W.ustack.get(), i, W.Tu));
		aiou2_p.reset(new StackUnicast(W.bstack.get(), i, W.Tu));
	}
	else
	{
		aiou_p.reset(new SimUnicast(W.unet.get(), i, aiounicast::aio_scheduler_roundrobin, W.Tu));
		aiou2_p.reset(new SimUnicast(W.bnet.get(), i, aiounicast::aio_scheduler_roundrobin, W.Tu));
	}
	aiounicast &aiou = *aiou_p, &aiou2 = *aiou2_p;
	CachinKursawePetzoldShoupRBC rbc(W.n, W.trbc, i, &aiou2, aiounicast::aio_scheduler_roundrobin, W.Tb);
	rbc.setID("tmcgsim-dkg");
	StampBuf errbuf; errbuf.S = &W.S; std::ostream err(&errbuf);
	time_t sync_t = aiounicast::aio_timeout_middle;
	switch (W.proto)
	{
		case PR_GJKR:
		{
			std::unique_ptr<GennaroJareckiKrawczykRabinDKG> dkg(new GennaroJareckiKrawczykRabinDKG(W.n, W.t, i, G.p, G.q, G.g, G.h, G.fs, G.ss, false, false));
			po.rets.push_back(dkg->CheckGroup() ? 1 : 0);
			po.rets.push_back(dkg->Generate(&aiou, &rbc, err, libfaulty) ? 1 : 0);
			if (do_restart && !libfaulty) restart(W, po, dkg, "GJKR DKG");
			po.rets.push_back(dkg->CheckKey() ? 1 : 0);
			po.qual = qual_str(dkg->QUAL); po.y = zs(dkg->y); po.x_i = zs(dkg->x_i);
			for (size_t j = 0; j < W.n; j++) po.v_i.push_back(zs(dkg->v_i[j]));
			rbc.Sync(sync_t, "step 1");
			if (W.plan.get("sign", 1))
			{
				GennaroJareckiKrawczykRabinNTS nts(W.n, W.t, i, G.p, G.q, G.g, G.h, G.fs, G.ss, false, false);
				po.rets.push_back(nts.Generate(&aiou, &rbc, err, libfaulty) ? 1 : 0);
				po.y2 = zs(nts.y);
				rbc.Sync(sync_t, "step 2");
				for (size_t k = 0; k < W.msgs.size(); k++)
				{
					Z c, s;
					int r = nts.Sign(W.msgs[k], c, s, &aiou, &rbc, err, libfaulty) ? 1 : 0;
					po.rets.push_back(r);
					po.sigs.push_back(std::make_pair(r ? zs(c) : std::string("-"), r ? zs(s) : std::string("-")));
					// the library's verifier on the own result and on altered copies
					if (r)
					{
						Z s1; mpz_add_ui(s1, s, 1); Z c1; mpz_add_ui(c1, c, 1);
						std::string v; v += nts.Verify(W.msgs[k], c, s) ? '1' : '0'; v += nts.Verify(W.msgs[k], c, s1) ? '1' : '0'; v += nts.Verify(W.msgs[k], c1, s) ? '1' : '0';
						{ Z sq, cq, sm; mpz_add(sq, s, G.q); mpz_add(cq, c, G.q); mpz_sub(sm, s, G.q); v += nts.Verify(W.msgs[k], c, sq) ? '1' : '0'; v += nts.Verify(W.msgs[k], cq, s) ? '1' : '0'; v += nts.Verify(W.msgs[k], c, sm) ? '1' : '0'; }
						po.sig_msgs.push_back(v);
					}
					else po.sig_msgs.push_back("-");
					rbc.Sync(sync_t, "step 3");
				}
			}
			break;
		}
		case PR_VSS:
		{
			std::unique_ptr<PedersenVSS> vss(new PedersenVSS(W.n, W.t, i, G.p, G.q, G.g, G.h, G.fs, G.ss, false));
			po.rets.push_back(vss->CheckGroup() ? 1 : 0);
			size_t dealer = (size_t)W.plan.get("dealer", 0) % W.n;
			int r;
			if (i == dealer) r = vss->Share(W.vss_secret, &aiou, &rbc, err, libfaulty) ? 1 : 0;
			else r = vss->Share(dealer, &aiou, &rbc, err, libfaulty) ? 1 : 0;
			po.vss_share_ret.push_back(r);
			po.x_i = zs(vss->sigma_i); po.y = zs(vss->tau_i);
			for (size_t k = 0; k < vss->A_j.size(); k++) po.v_i.push_back(zs(vss->A_j[k]));
			if (do_restart && !libfaulty) restart_vss(W, po, vss);
			Z sig; mpz_set_ui(sig, 42);
			int rr = vss->Reconstruct(dealer, sig, &rbc, err) ? 1 : 0;
			po.vss_rec_ret.push_back(rr);
			po.vss_out.push_back(zs(sig));
			rbc.Sync(sync_t, "step 1");
			break;
		}
		case PR_CGJKR_DKG:
		{
			std::unique_ptr<CanettiGennaroJareckiKrawczykRabinDKG> dkg(new CanettiGennaroJareckiKrawczykRabinDKG(W.n, W.t, i, G.p, G.q, G.g, G.h, G.fs, G.ss, false, false));
			po.rets.push_back(dkg->CheckGroup() ? 1 : 0);
			po.rets.push_back(dkg->Generate(&aiou, &rbc, err, libfaulty) ? 1 : 0);
			if (do_restart && !libfaulty) restart(W, po, dkg, "CGJKR DKG");
			po.qual = qual_str(dkg->QUAL); po.y = zs(dkg->y); po.x_i = zs(dkg->x_i);
			rbc.Sync(sync_t, "step 1");
			if (W.plan.get("refresh", 0))
			{
				po.x_i_before_refresh = po.x_i; po.y_before_refresh = po.y;
				po.rets.push_back(dkg->Refresh(W.n, i, &aiou, &rbc, err, libfaulty) ? 1 : 0);
				if (do_restart && !libfaulty) restart(W, po, dkg, "CGJKR DKG after refresh");
				po.qual = qual_str(dkg->QUAL); po.y = zs(dkg->y); po.x_i = zs(dkg->x_i);
				rbc.Sync(sync_t, "step 2");
			}
			break;
		}
		case PR_DSS:
		{
			std::unique_ptr<CanettiGennaroJareckiKrawczykRabinDSS> dss(new CanettiGennaroJareckiKrawczykRabinDSS(W.n, W.t, i, G.p, G.q, G.g, G.h, G.fs, G.ss, false, false));
			po.rets.push_back(dss->CheckGroup() ? 1 : 0);
			po.rets.push_back(dss->Generate(&aiou, &rbc, err, libfaulty) ? 1 : 0);
			if (do_restart && !libfaulty) restart_dss(W, po, dss);
			po.qual = qual_str(dss->QUAL); po.y = zs(dss->y); po.x_i = zs(dss->x_i);
			rbc.Sync(sync_t, "step 1");
			for (size_t k = 0; k < W.msgs.size(); k++)
			{
				if (k == 1 && W.plan.get("refresh", 0))
				{
					po.x_i_before_refresh = po.x_i; po.y_before_refresh = po.y;
					po.rets.push_back(dss->Refresh(W.n, i, &aiou, &rbc, err, libfaulty) ? 1 : 0);
					if (do_restart && !libfaulty) restart_dss(W, po, dss);
					po.x_i = zs(dss->x_i); po.y = zs(dss->y);
					rbc.Sync(sync_t, "step r");
				}
				Z r, s;
				int ok = dss->Sign(W.n, i, W.msgs[k], r, s, &aiou, &rbc, err, libfaulty) ? 1 : 0;
				po.rets.push_back(ok);
				po.sigs.push_back(std::make_pair(ok ? zs(r) : std::string("-"), ok ? zs(s) : std::string("-")));
				if (ok)
				{
					Z s1, r1, sq, rq; mpz_add_ui(s1, s, 1); mpz_add_ui(r1, r, 1); mpz_add(sq, s, G.q); mpz_add(rq, r, G.q);
					Z zero;
					std::string v;
					v += dss->Verify(W.msgs[k], r, s) ? '1' : '0'; v += dss->Verify(W.msgs[k], r, s1) ? '1' : '0'; v += dss->Verify(W.msgs[k], r1, s) ? '1' : '0';
					v += dss->Verify(W.msgs[k], r, sq) ? '1' : '0'; v += dss->Verify(W.msgs[k], rq, s) ? '1' : '0';
					v += dss->Verify(W.msgs[k], zero, s) ? '1' : '0'; v += dss->Verify(W.msgs[k], r, zero) ? '1' : '0';
					v += dss->Verify(W.msgs[k], G.q, s) ? '1' : '0'; v += dss->Verify(W.msgs[k], r, G.q) ? '1' : '0';
					// negative representatives of the same residues: outside 0 < r, s < q
					Z sm, rm, sn; mpz_sub(sm, s, G.q); mpz_sub(rm, r, G.q); mpz_neg(sn, s);
					v += dss->Verify(W.msgs[k], r, sm) ? '1' : '0'; v += dss->Verify(W.msgs[k], rm, s) ? '1' : '0'; v += dss->Verify(W.msgs[k], r, sn) ? '1' : '0';
					po.sig_msgs.push_back(v);
				}
				else po.sig_msgs.push_back("-");
				rbc.Sync(sync_t, "step s");
			}
			break;
		}
		case PR_RVSS:
		{
			// stand-alone Joint-RVSS with a sharing degree t' that may differ from the complaint threshold t
			std::unique_ptr<CanettiGennaroJareckiKrawczykRabinRVSS> rv(new CanettiGennaroJareckiKrawczykRabinRVSS(W.n, W.t, i, W.tprime, G.p, G.q, G.g, G.h, G.fs, G.ss, false, false, "sim_rvss"));
			po.rets.push_back(rv->CheckGroup() ? 1 : 0);
			po.rets.push_back(rv->Share(&aiou, &rbc, err, libfaulty) ? 1 : 0);
			if (do_restart && !libfaulty)
			{
				std::ostringstream s1; rv->PublishState(s1);
				std::istringstream in(s1.str());
				std::unique_ptr<CanettiGennaroJareckiKrawczykRabinRVSS> fresh(new CanettiGennaroJareckiKrawczykRabinRVSS(in, G.fs, G.ss, false, false, "sim_rvss"));
				std::ostringstream s2; fresh->PublishState(s2);
				po.restarts++;
				if (s1.str() != s2.str()) po.state_mismatch = "Joint-RVSS: persisted state differs after restore";
				else if (in.peek() != EOF && !(in >> std::ws).eof()) po.state_mismatch = "Joint-RVSS: restore left persisted state unread";
				rv.swap(fresh);
			}
			po.qual = qual_str(rv->QUAL); po.x_i = zs(rv->x_i); po.xprime_i = zs(rv->xprime_i);
			for (size_t j = 0; j < rv->C_ik.size(); j++)
			{
				std::string row;
				for (size_t k = 0; k < rv->C_ik[j].size(); k++) row += zs(rv->C_ik[j][k]) + ",";
				po.v_i.push_back(row);
			}
			rbc.Sync(sync_t, "step 1");
			break;
		}
		case PR_FLIP:
		{
			JareckiLysyanskayaEDCF edcf(W.n, W.t, G.p, G.q, G.g, G.h, G.fs, G.ss);
			po.rets.push_back(edcf.CheckGroup() ? 1 : 0);
			Z a;
			po.rets.push_back(edcf.Flip(i, a, &aiou, &rbc, err, libfaulty) ? 1 : 0);
			po.coin = zs(a);
			rbc.Sync(sync_t, "step 1");
			break;
		}
	}
	po.errlog = errbuf.text;
	po.finished = true;
}

static void lagrange_at_zero(const std::vector<std::pair<size_t, Z> > &pts, mpz_srcptr q, Z &out)
{
	mpz_set_ui(out, 0);
	for (size_t a = 0; a < pts.size(); a++)
	{
		Z num(1), den(1), t;
		for (size_t b = 0; b < pts.size(); b++)
		{
			if (a == b) continue;
			mpz_set_si(t, (long)(pts[b].first + 1)); mpz_mul(num, num, t); mpz_mod(num, num, q);
			mpz_set_si(t, (long)(pts[b].first + 1) - (long)(pts[a].first + 1)); mpz_mul(den, den, t); mpz_mod(den, den, q);
		}
		mpz_invert(den, den, q);
		mpz_mul(t, num, den); mpz_mul(t, t, pts[a].second); mpz_add(out, out, t); mpz_mod(out, out, q);
	}
}

static void subsets(size_t n, size_t k, size_t start, std::vector<size_t> &cur, std::vector<std::vector<size_t> > &out)
{
	if (cur.size() == k) { out.push_back(cur); return; }
	for (size_t i = start; i < n; i++) { cur.push_back(i); subsets(n, k, i + 1, cur, out); cur.pop_back(); }
}

} // namespace

static Plan dkg_generate(uint64_t seed, const Tier &tier)
{
	Plan p; p.seed = seed;
	const std::string &prop = tier.property;
	Rng g(derive(seed, 1));
	int proto;
	if (prop == "C16") proto = g.chance(1, 2) ? PR_GJKR : PR_DSS;
	else if (prop == "C17") proto = PR_FLIP;
	else if (prop == "C11") { static const int pr[] = { PR_GJKR, PR_VSS, PR_CGJKR_DKG, PR_DSS, PR_RVSS }; proto = pr[g.below(5)]; }
	else if (prop == "C15") { static const int pr[] = { PR_GJKR, PR_VSS, PR_CGJKR_DKG, PR_VSS, PR_GJKR, PR_CGJKR_DKG, PR_RVSS }; proto = pr[g.below(7)]; }
	else proto = (int)g.below(PR_NUM);
	if (tier.opt.count("proto")) proto = atoi(tier.opt.find("proto")->second.c_str());
	p.property = prop.empty() ? "C15" : prop;
	p.cfg["proto"] = proto;
	static const int nsq[] = { 3, 4, 4, 4, 5, 4, 5, 6 }, nst[] = { 3, 4, 4, 5, 5, 6, 7, 7 };
	int n = (tier.thorough || proto == PR_FLIP || proto == PR_VSS) ? nst[g.below(8)] : nsq[g.below(8)];
	if (proto == PR_DSS && !tier.thorough && n > 5) n = 4;
	int tmax = (n - 1) / 3;
	int t = tmax ? (int)g.range(g.chance(3, 4) ? tmax : 0, tmax) : 0;
	// the New-DKG and the dealer-based VSS tolerate t < n/2 (the broadcast below them keeps (n-1)/3, which
	// also bounds the number of faulty parties here): thresholds up to 3 with seven parties
	if ((proto == PR_GJKR || proto == PR_VSS || proto == PR_FLIP) && g.chance(1, 4))
	{
		if ((proto == PR_GJKR || proto == PR_FLIP) && g.chance(1, 2)) n = 7;
		if (n >= 5) { t = (n - 1) / 2; p.cfg["bigt"] = 1; }
	}
	p.cfg["n"] = n; p.cfg["t"] = t;
	p.cfg["tprime"] = (proto == PR_RVSS) ? (int64_t)g.range(t, std::min(2 * t, n - tmax - 2 > t ? n - tmax - 2 : t)) : t;
	p.cfg["group"] = (int64_t)g.below(group_pool().size());
	p.cfg["lat"] = (int64_t)g.below(3);                    // 0: 1..50 ms, 1: 1..300 ms, 2: 1..800 ms
	p.cfg["Tu"] = (p.cfg["lat"] < 2 && g.chance(1, 2)) ? 3 : 5;
	p.cfg["Tb"] = g.chance(1, 2) ? 60 : 90;
	p.cfg["slow"] = g.chance(1, 4) ? (int64_t)g.below(n) : -1; // one honest party with extra latency on its links
	p.cfg["skew"] = g.chance(1, 3) ? (int64_t)g.below(1 << 16) : 0;
	p.cfg["restart"] = g.chance(1, 2) ? (int64_t)g.below(1 << n) : 0;
	if (prop == "C11" || tier.opt.count("restartall")) p.cfg["restart"] = (int64_t)((1 << n) - 1);
	p.cfg["sign"] = (proto == PR_GJKR) ? ((prop == "C15") ? g.chance(1, 4) : 1) : 0;
	p.cfg["refresh"] = g.chance(1, 2);
	p.cfg["dealer"] = (int64_t)g.below(n);
	p.cfg["nmsg"] = (proto == PR_DSS) ? (int64_t)g.range(1, 2) : (int64_t)g.range(1, 2);
	p.cfg["msgclass"] = (int64_t)g.below(1 << 10);
	bool faults = tier.opt.count("nofaults") == 0 && !g.chance(1, 4);
	// full stack (drawn from a stream of its own, so that the other dimensions of a seed stay what they were):
	// bit 0 on, bit 1 authenticated, bit 2 encrypted (only with authentication, as every in-tree user), bit 3 chunked
	{
		Rng gs(derive(seed, 77));
		int64_t fs = 0;
		if (tier.opt.count("fullstack") ? atoi(tier.opt.find("fullstack")->second.c_str()) != 0 : gs.chance(1, FULLSTACK_ONE_IN))
		{
			fs = 1;
			if (gs.chance(1, 2)) { fs |= 2; if (gs.chance(1, 2)) fs |= 4; }
			if (gs.chance(1, 4)) fs |= 8;
			if (gs.chance(2, 3)) fs |= 16;
			if (gs.chance(1, 2)) fs |= 32;
			if (gs.chance(1, 3)) fs |= 64;
		}
		if (tier.opt.count("fullstack") && atoi(tier.opt.find("fullstack")->second.c_str()) > 1) fs = atoi(tier.opt.find("fullstack")->second.c_str()) | 1;
		p.cfg["fullstack"] = fs;
	}
	if (faults && t > 0)
	{
		// up to t deviating parties; at most tmax = (n-1)/3 of them deviate below the broadcast (silence, crash,
		// per-recipient links), the others deviate only above it (library switch, one own broadcast replaced for
		// every recipient alike) and are honest as far as the reliable broadcast is concerned
		bool bigt = p.cfg.count("bigt") && p.cfg["bigt"];
		int f = (int)g.range(1, bigt ? t : std::min(t, tmax));
		bool allsoft = bigt && g.chance(1, 2);
		std::set<int> used;
		for (int k = 0; k < f; k++)
		{
			int z; do { z = (int)g.below(n); } while (used.count(z)); used.insert(z);
			int64_t mode = (int64_t)g.below(7);
			if (k >= tmax || allsoft) mode = (mode & 1) ? 6 : 0;
			p.ops.push_back(Op("f_faulty", z, mode, (int64_t)g.below(400), (int64_t)g.below(1 << 16)));
		}
	}
	return p;
}

static RunResult dkg_execute_inner(const Plan &plan, const std::vector<uint64_t> *clean_counts, std::vector<uint64_t> *counts_out)
{
	World W(plan);
	W.G = &group_pool()[(size_t)plan.get("group", 0) % group_pool().size()];
	W.n = (size_t)std::max<int64_t>(2, std::min<int64_t>(8, plan.get("n", 4)));
	W.trbc = (W.n - 1) / 3;
	W.t = (size_t)std::max<int64_t>(0, std::min<int64_t>((int64_t)(plan.get("bigt", 0) ? (W.n - 1) / 2 : W.trbc), plan.get("t", 1)));
	if (W.trbc > W.t) W.trbc = W.t;
	W.tprime = (size_t)std::max<int64_t>((int64_t)W.t, std::min<int64_t>((int64_t)W.n - 1, plan.get("tprime", (int64_t)W.t)));
	W.proto = (int)(plan.get("proto", 0) % PR_NUM);
	W.Tu = (time_t)plan.get("Tu", 1); W.Tb = (time_t)plan.get("Tb", 45);
	W.out.resize(W.n); W.faulty.assign(W.n, 0); W.sendctr.assign(W.n, 0);
	size_t nf = 0, nhard = 0;
	std::vector<int64_t> crash_after(W.n, 0), bseed(W.n, 0);
	for (size_t i = 0; i < plan.ops.size(); i++)
		if (plan.ops[i].kind == "f_faulty")
		{
			size_t z = (size_t)plan.ops[i].arg(0) % W.n;
			int fmode = (int)(plan.ops[i].arg(1) % 7); bool soft = (fmode == 0 || fmode == 6);
			size_t fcap = plan.get("bigt", 0) ? W.t : W.trbc;
			if (W.faulty[z] || nf >= fcap || (!soft && nhard >= W.trbc)) continue;
			if (!soft) nhard++;
			W.faulty[z] = 1 + fmode; nf++;
			crash_after[z] = plan.ops[i].arg(2); bseed[z] = plan.ops[i].arg(3);
			W.out[z].honest = false; W.out[z].fmode = W.faulty[z] - 1;
			W.res.cnt[std::string("fault.faulty_party_mode") + std::to_string(W.faulty[z] - 1)]++;
		}
	// fault placement relative to a clean run: the clean pass (all parties honest, same seed) counts the
	// messages every party sends; "crash" and "out of range" then start after a fraction of that count
	if (counts_out) { for (size_t z = 0; z < W.n; z++) { W.faulty[z] = 0; W.out[z].honest = true; } nf = 0; }
	else if (clean_counts)
		for (size_t z = 0; z < W.n; z++)
			if (W.faulty[z] == 3 || W.faulty[z] == 5)
				crash_after[z] = (int64_t)((*clean_counts)[z] * (uint64_t)(crash_after[z] % 400) / 400);
		for (size_t z = 0; clean_counts && z < W.n; z++)
			if (W.faulty[z] == 7)
			{
				uint64_t nb = (clean_counts->size() >= 2 * W.n) ? (*clean_counts)[W.n + z] : 0; // own broadcasts of the clean run (per recipient)
				if (nb == 0) crash_after[z] = -1;
				else if ((crash_after[z] % 3) == 0) crash_after[z] = (int64_t)(nb - 1 - (uint64_t)(crash_after[z] / 3) % std::min<uint64_t>(nb, 4)); // one of the last four
				else crash_after[z] = (int64_t)((uint64_t)crash_after[z] % nb);
			}
	std::vector<uint64_t> all_sent(2 * W.n, 0); // [0,n): messages sent; [n,2n): own broadcasts (r-send tuples to one recipient)
	std::vector<std::vector<uint64_t> > own_bc(W.n, std::vector<uint64_t>(W.n, 0)), first_uc(W.n, std::vector<uint64_t>(W.n, 0));
	std::vector<std::vector<uint64_t> > *obp = &own_bc, *fup = &first_uc;
	// timing discipline: drift caused by f faulty parties stays below the broadcast time-out
	if ((int64_t)W.Tb <= 3 * (int64_t)nf * (int64_t)W.Tu + 10) W.Tb = 3 * nf * W.Tu + 30;
	W.unet.reset(new Net(&W.S, W.n, true, 1)); W.bnet.reset(new Net(&W.S, W.n, true, 2));
	int64_t fsb = plan.get("fullstack", 0);
	if (fsb & 1)
	{
		W.fullstack = true;
		W.fdt.reset(new FdTable()); W.fdt->activate();
		W.ustack.reset(new Stack(W.unet.get(), W.fdt.get(), (fsb & 2) != 0, (fsb & 6) == 6, (fsb & 8) != 0, "tmcgsim-u"));
		W.bstack.reset(new Stack(W.bnet.get(), W.fdt.get(), (fsb & 2) != 0, false, (fsb & 8) != 0, "tmcgsim-b"));
		W.res.cnt["probe.fullstack_runs"]++;
		{
			// benign byte-level faults (bits 4..6 of the knob): fragments, short reads and writes, EINTR
			Stack *st[2] = { W.ustack.get(), W.bstack.get() };
			for (int z = 0; z < 2; z++)
			{
				if (fsb & 16) st[z]->frag_num = 64;
				if (fsb & 32) st[z]->short_num = 24;
				if (fsb & 64) st[z]->eintr_num = 4;
			}
		}
		if (fsb & 2) W.res.cnt["probe.fullstack_authenticated"]++;
		if ((fsb & 6) == 6) W.res.cnt["probe.fullstack_encrypted"]++;
		if (fsb & 8) W.res.cnt["probe.fullstack_chunked"]++;
	}
	int lat = (int)plan.get("lat", 0);
	int64_t lmax = (lat == 0) ? 50 : ((lat == 1) ? 300 : 800);
	W.unet->lat_max_ms = lmax; W.bnet->lat_max_ms = lmax;
	int64_t slow = plan.get("slow", -1);
	if (slow >= 0 && (size_t)slow < W.n)
		for (size_t j = 0; j < W.n; j++)
		{ W.unet->extra_lat[slow][j] = 200; W.bnet->extra_lat[slow][j] = 200; W.unet->extra_lat[j][slow] = 150; W.bnet->extra_lat[j][slow] = 150; W.res.cnt["fault.slow_node"] = 1; }
	// Byzantine behaviour on the links of faulty parties
	World *Wp = &W;
	auto filt = [Wp, &crash_after, bseed, obp, fup](Net *N, size_t src, size_t dst, const Unit &u, std::vector<Unit> &out)
	{
		World &W = *Wp;
		int fm = W.faulty[src] - 1;
		if (fm < 0 || fm == 0) { out.push_back(u); return; }
		if (fm == 4)
		{
			// after a fraction of its messages the party sends values outside the range (value + q): its own
			// broadcast payloads (r-send tuples on the broadcast net) and its private messages
			uint64_t c4 = W.sendctr[src]++;
			if ((int64_t)c4 < crash_after[src]) { out.push_back(u); return; }
			Unit v = u; bool changed = false;
			if (N == W.unet.get()) { for (size_t k = 0; k < v.ints.size(); k++) { Z x; mpz_set_str(x, v.ints[k].c_str(), 16); mpz_add(x, x, W.G->q); v.ints[k] = zs(x); } changed = true; }
			else if (v.ints.size() == 5 && v.ints[3] == "1" && v.ints[1] == std::to_string(src)) { Z x; mpz_set_str(x, v.ints[4].c_str(), 16); mpz_add(x, x, W.G->q); v.ints[4] = zs(x); changed = true; }
			if (changed) W.res.cnt["fault.out_of_range_value"]++;
			out.push_back(v); return;
		}
		if (fm == 5)
		{
			// a wrong private value in the first message to exactly m recipients (m = 1 .. t+1), everything else
			// honest: the number of complaints sits at the disqualification threshold
			if (N == W.unet.get() && !u.ints.empty())
			{
				size_t m = 1 + (size_t)(bseed[src] % (int64_t)(W.t + 1)), rank = 0;
				for (size_t q = 0; q < W.n; q++) if (q != src && derive((uint64_t)bseed[src], q) < derive((uint64_t)bseed[src], dst)) rank++;
				if (dst != src && rank < m && (*fup)[src][dst]++ == 0)
				{ Unit v = u; Z x; mpz_set_str(x, v.ints[0].c_str(), 16); mpz_add_ui(x, x, 1); v.ints[0] = zs(x); W.res.cnt["fault.wrong_share_to_m_recipients"]++; out.push_back(v); return; }
			}
			out.push_back(u); return;
		}
		if (fm == 6)
		{
			// exactly one own broadcast, at a position taken from the clean run, carries 0 (or 1) instead of its value
			if (N == W.bnet.get() && u.ints.size() == 5 && u.ints[3] == "1" && u.ints[1] == std::to_string(src))
			{
				uint64_t idx = (*obp)[src][dst]++;
				if ((int64_t)idx == crash_after[src])
				{ Unit v = u; v.ints[4] = (bseed[src] & 1) ? "1" : "0"; if (dst == (src + 1) % W.n || true) W.res.cnt["fault.own_broadcast_zeroed"]++; out.push_back(v); return; }
			}
			out.push_back(u); return;
		}
		uint64_t c = W.sendctr[src]++;
		if (fm == 1) { W.res.cnt["fault.silent_drop"]++; return; }                 // never says anything
		if (fm == 2) { if ((int64_t)c >= crash_after[src]) { W.res.cnt["fault.crash_drop"]++; return; } out.push_back(u); return; }
		// fm == 3: mutate / drop selectively (per recipient), seeded per message
		uint64_t h = derive(W.plan.seed ^ (uint64_t)bseed[src], (src * 64 + dst) * 1000003ULL + c);
		unsigned r = (unsigned)(h % 100);
		if (r < 6) { W.res.cnt["fault.byz_link_drop"]++; return; }
		if (r < 14 && !u.ints.empty())
		{
			Unit v = u; size_t k = (size_t)(h >> 8) % v.ints.size();
			// +1, or one of the special values 0 / 1 / q-1 (in-band markers and boundary cases of the receivers)
			Z x; mpz_set_str(x, v.ints[k].c_str(), 16);
			unsigned sv = (unsigned)((h >> 24) % 8);
			if (sv == 0) mpz_set_ui(x, 0); else if (sv == 1) mpz_set_ui(x, 1); else if (sv == 2) mpz_sub_ui(x, W.G->q, 1); else mpz_add_ui(x, x, 1);
			v.ints[k] = zs(x);
			W.res.cnt[sv <= 2 ? "fault.byz_link_special_value" : "fault.byz_link_mutate"]++; out.push_back(v); return;
		}
		out.push_back(u);
	};
	W.unet->filter = [filt, Wp](size_t s, size_t d, const Unit &u, std::vector<Unit> &o){ filt(Wp->unet.get(), s, d, u, o); };
	W.bnet->filter = [filt, Wp](size_t s, size_t d, const Unit &u, std::vector<Unit> &o){ filt(Wp->bnet.get(), s, d, u, o); };
	std::vector<uint64_t> *asp = &all_sent;
	W.unet->tap = [asp](size_t src, size_t, const Unit &){ (*asp)[src]++; };
	{
		bool tr = getenv("TMCGSIM_TRACE") != NULL;
		W.bnet->tap = [asp, Wp, tr](size_t src, size_t dst, const Unit &u){ (*asp)[src]++;
			if (u.ints.size() == 5 && u.ints[3] == "1" && u.ints[1] == std::to_string(src) && dst == (src + 1) % Wp->n) (*asp)[Wp->n + src]++;
			if (tr && u.ints.size() != 5) printf("BNET odd unit %zu->%zu size %zu at %lld ms\n", src, dst, u.ints.size(), (long long)Wp->S.now_ms); };
	}
	// messages to sign: 0, 1, q-1, q, random
	{
		int64_t mc = plan.get("msgclass", 0); size_t nm = (size_t)std::max<int64_t>(1, std::min<int64_t>(3, plan.get("nmsg", 1)));
		for (size_t k = 0; k < nm; k++)
		{
			Z m; int c = (int)((mc >> (3 * k)) % 6);
			switch (c)
			{
				case 0: mpz_set_ui(m, 0); break;
				case 1: mpz_set_ui(m, 1); break;
				case 2: mpz_sub_ui(m, W.G->q, 1); break;
				case 3: mpz_set(m, W.G->q); break;
				default: { unsigned char b[24]; W.S.gen.fill(b, sizeof(b)); mpz_import(m, sizeof(b), 1, 1, 1, 0, b); mpz_mod(m, m, W.G->q); }
			}
			// the channel ID of a signing run contains the message: signing one message twice with the
			// same instance re-uses the broadcast tags (the second run cannot complete) - messages differ
			for (size_t z = 0; z < W.msgs.size(); z++)
				if (!mpz_cmp(W.msgs[z], m)) { unsigned char b[24]; W.S.gen.fill(b, sizeof(b)); mpz_import(m, sizeof(b), 1, 1, 1, 0, b); mpz_mod(m, m, W.G->q); z = (size_t)-1; }
			W.msgs.push_back(m);
		}
		unsigned char b[16]; W.S.gen.fill(b, sizeof(b)); mpz_import(W.vss_secret, sizeof(b), 1, 1, 1, 0, b);
		if (mc & 512) mpz_set_ui(W.vss_secret, (unsigned long)(mc & 3));
		// PedersenVSS treats a share equal to 0 as "no share stored"; with t = 0 the share is the secret
		// itself, so the secret 0 cannot be reconstructed (noted in DESIGN.md, observation O2) - avoided
		if (W.t == 0 && !zcmp_ui(W.vss_secret, 0)) mpz_set_ui(W.vss_secret, 1);
	}
	bool private_timeout = false; bool *ptp = &private_timeout;
	int64_t t_hh = -1; int64_t *thp = &t_hh; // simulated time of the first time-out between two honest parties
	W.unet->on_timeout = [Wp, ptp, thp](size_t dst, size_t src){ if (src < Wp->n && !Wp->faulty[dst] && !Wp->faulty[src]) { *ptp = true; if (*thp < 0) *thp = (int64_t)Wp->S.now_ms; } };
	StampBuf cerrbuf; cerrbuf.S = &W.S; std::streambuf *cerr_prev = std::cerr.rdbuf(&cerrbuf);
	int64_t skew = plan.get("skew", 0);
	for (size_t i = 0; i < W.n; i++)
	{
		if (W.faulty[i] == 2) { W.out[i].finished = true; continue; } // silent from the start: never runs
		W.S.spawn("P" + std::to_string(i), (int)i, [Wp, i]{ party_main(*Wp, i); });
		W.S.tasks.back()->skew_s = skew ? (int64_t)((skew >> (2 * i)) & 3) - 1 : 0; // -1..2 s (honest skew <= 2 s apart... within 3)
	}
	W.S.max_steps = 3000000;
	W.S.run();
	if (W.fullstack)
	{
		W.res.cnt["probe.fullstack_bytes_delivered"] += W.ustack->bytes_released + W.bstack->bytes_released;
		W.res.cnt["probe.fullstack_integers_framed"] += W.ustack->frames + W.bstack->frames;
		W.res.cnt["probe.fullstack_integers_checked_against_model"] += W.ustack->n_checked + W.bstack->n_checked;
		W.res.cnt["fault.stack_fragmented_write"] += W.ustack->n_frag + W.bstack->n_frag;
		W.res.cnt["fault.stack_short_read"] += W.ustack->n_short_r + W.bstack->n_short_r;
		W.res.cnt["fault.stack_short_write"] += W.ustack->n_short_w + W.bstack->n_short_w;
		W.res.cnt["fault.stack_select_eintr"] += W.ustack->n_eintr + W.bstack->n_eintr;
	}
	if (W.S.step_budget_hit) W.res.cnt["probe.step_budget_hit"]++;
	// ---- assumption check: an honest party timed out on another honest party -> outside the quantifier
	std::cerr.rdbuf(cerr_prev);
	std::string cerr_all = cerrbuf.text + W.cap.str();
	bool assumption_broken = false;
	for (size_t i = 0; i < W.n && !assumption_broken; i++)
		for (size_t j = 0; j < W.n; j++)
		{
			if (W.faulty[i] || W.faulty[j] || i == j) continue;
			std::ostringstream pat; pat << "RBC(" << i << "): timeout delivering from " << j << "\n";
			if (cerr_all.find(pat.str()) != std::string::npos) { assumption_broken = true; break; }
		}
	// time of the first broadcast time-out between two honest parties (stamped lines of the library's log)
	for (size_t i = 0; i < W.n; i++)
		for (size_t j = 0; j < W.n; j++)
		{
			if (W.faulty[i] || W.faulty[j] || i == j) continue;
			std::ostringstream pat; pat << " RBC(" << i << "): timeout delivering from " << j << "\n";
			size_t pos = cerr_all.find(pat.str());
			if (pos == std::string::npos) continue;
			size_t ls = cerr_all.rfind('@', pos);
			if (ls != std::string::npos) { int64_t tm = atoll(cerr_all.c_str() + ls + 1); if (t_hh < 0 || tm < t_hh) t_hh = tm; }
		}
	if (W.S.step_budget_hit || W.S.aborting || private_timeout) assumption_broken = true;
	if (getenv("TMCGSIM_TRACE")) { printf("%s\n", cerr_all.c_str()); for (size_t i = 0; i < W.n; i++) printf("---- party %zu log ----\n%s\n", i, W.out[i].errlog.c_str()); fflush(stdout); }
	if (assumption_broken)
	{
		W.res.excluded = true; W.res.cnt["probe.assumption_broken_runs"]++;
		if (getenv("TMCGSIM_WORKER_STDERR"))
			fprintf(stderr, "EXCLUDED seed=%llu private_timeout=%d budget=%d aborting=%d fp=%s\n%s", (unsigned long long)plan.seed, (int)private_timeout, (int)W.S.step_budget_hit, (int)W.S.aborting, u64hex(W.S.hist.h).c_str(), plan.to_text().c_str());
	}
	// ---- oracles
	std::vector<size_t> H;
	for (size_t i = 0; i < W.n; i++) if (!W.faulty[i]) H.push_back(i);
	const Grp &G = *W.G;
	// A run that leaves the synchrony assumption is not judged - but a disagreement on the set of qualified parties
	// that every honest party logged BEFORE the first time-out between honest parties happened inside the
	// assumption (and is what makes honest parties time out on each other afterwards)
	if (assumption_broken && !W.S.step_budget_hit && H.size() >= 2)
	{
		std::vector<std::string> q; int64_t t_last = -1; bool all = true;
		for (size_t a = 0; a < H.size() && all; a++)
		{
			const std::string &lg = W.out[H[a]].errlog; size_t pos = lg.find(": QUAL = {");
			if (pos == std::string::npos) { all = false; break; }
			size_t ls = lg.rfind('@', pos), le = lg.find('\n', pos);
			if (ls == std::string::npos || le == std::string::npos) { all = false; break; }
			int64_t tm = atoll(lg.c_str() + ls + 1); if (tm > t_last) t_last = tm;
			q.push_back(lg.substr(pos + 2, le - pos - 2));
		}
		if (all && t_hh >= 0 && t_last < t_hh)
		{
			W.res.cnt["probe.qual_judged_before_first_timeout"]++;
			for (size_t a = 1; a < q.size(); a++)
				if (q[a] != q[0])
				{
					W.res.excluded = false;
					W.violate("C15", "qual_differs", "honest parties " + std::to_string(H[0]) + " and " + std::to_string(H[a]) + " logged different sets (" + q[0] + " vs " + q[a] + ") at " + std::to_string((long long)t_last) + " ms, before the first time-out between honest parties at " + std::to_string((long long)t_hh) + " ms");
					break;
				}
		}
	}
	// full stack: the real channel endpoints against the per-link reference model (judged in every run: the byte
	// layer delivers within its latency bound whatever the parties above it do)
	if (W.fullstack && W.res.ok())
	{
		Stack *st[2] = { W.ustack.get(), W.bstack.get() };
		for (int z = 0; z < 2 && W.res.ok(); z++)
			if (!st[z]->violation.empty())
			{
				W.res.excluded = false;
				W.violate("C13", "fullstack_channel", std::string(z ? "broadcast transport: " : "private channels: ") + st[z]->violation +
					" [auth=" + std::to_string((int)st[z]->auth) + " enc=" + std::to_string((int)st[z]->enc) + " chunked=" + std::to_string((int)st[z]->chunked) + "]");
			}
	}
	if (!assumption_broken)
	{
		for (size_t a = 0; a < H.size() && W.res.ok(); a++)
		{
			PartyOut &po = W.out[H[a]];
			if (!po.finished) { W.violate("C15", "honest_party_did_not_finish", "party " + std::to_string(H[a]) + " did not return (bounded liveness)"); break; }
			if (!po.state_mismatch.empty()) { W.violate("C11", "state_roundtrip", "party " + std::to_string(H[a]) + ": " + po.state_mismatch); break; }
		}
	}
	if (!assumption_broken && W.res.ok())
	{
		const char *prop = (W.proto == PR_FLIP) ? "C17" : "C15";
		// every protocol call of an honest party succeeded (VSS: judged separately, the dealer may be faulty)
		if (W.proto != PR_VSS)
			for (size_t a = 0; a < H.size() && W.res.ok(); a++)
			{
				PartyOut &po = W.out[H[a]];
				for (size_t k = 0; k < po.rets.size(); k++)
					if (po.rets[k] != 1)
					{
						bool signing = (W.proto == PR_GJKR && k >= 4) || (W.proto == PR_DSS && k >= 2);
						// the reason is part of the class, so that a recorded finding does not hide another failure
						std::string why = "_other";
						if (po.errlog.find("too many faulty parties") != std::string::npos && po.errlog.find("GennaroJareckiKrawczykRabinDKG::Reconstruct()") != std::string::npos)
							why = "_newdkg_too_many_complaints";
						else if (po.errlog.find("too many faulty parties") != std::string::npos) why = "_too_many_complaints";
						else if (po.errlog.find("reconstruction") != std::string::npos && po.errlog.find("failed") != std::string::npos) why = "_reconstruction_failed";
						W.violate(signing ? "C16" : prop, std::string(signing ? "honest_signer_failed" : "honest_party_failed") + why,
							"call #" + std::to_string(k) + " of honest party " + std::to_string(H[a]) + " returned false; log tail: " +
							po.errlog.substr(po.errlog.size() > 300 ? po.errlog.size() - 300 : 0));
						break;
					}
			}
		// agreement on QUAL and the public key(s)
		for (size_t a = 1; a < H.size() && W.res.ok(); a++)
		{
			PartyOut &p0 = W.out[H[0]], &pa = W.out[H[a]];
			if (W.proto == PR_FLIP)
			{
				if (p0.coin != pa.coin) W.violate("C17", "coins_differ", "honest parties " + std::to_string(H[0]) + " and " + std::to_string(H[a]) + " output different coins");
				continue;
			}
			if (W.proto == PR_VSS) continue;
			if (p0.qual != pa.qual) W.violate("C15", "qual_differs", "QUAL " + p0.qual + " at party " + std::to_string(H[0]) + " vs " + pa.qual + " at party " + std::to_string(H[a]));
			else if (p0.y != pa.y) W.violate("C15", "public_key_differs", "honest parties hold different public keys");
			else if (p0.y2 != pa.y2) W.violate("C16", "signing_key_differs", "honest parties hold different threshold-signature keys");
			else if (p0.v_i != pa.v_i && W.proto == PR_GJKR)
			{
				// only the verification keys of qualified parties are defined
				for (size_t j = 0; j < W.n; j++)
					if (p0.qual.find("," + std::to_string(j) + ",") != std::string::npos || p0.qual.compare(0, std::to_string(j).size() + 1, std::to_string(j) + ",") == 0)
						if (p0.v_i[j] != pa.v_i[j]) { W.violate("C15", "verification_keys_differ", "v_" + std::to_string(j) + " differs between honest parties"); break; }
			}
		}
		// coin flip with a party whose links replace exactly one of its own broadcasts by 0 or 1 (it runs the honest
		// code and believes in its own value): as long as no honest party complained about it in the sharing
		// phase it stays qualified, its committed value belongs to the coin, and the honest parties' coin must be
		// the one this party computes itself - a wrong opening has to be corrected by reconstruction
		if (W.res.ok() && W.proto == PR_FLIP)
			for (size_t z = 0; z < W.n && W.res.ok(); z++)
			{
				if (W.faulty[z] != 7 || !W.out[z].finished || W.out[z].rets.size() < 2 || W.out[z].rets[1] != 1) continue;
				std::string pat = "complaint against P_" + std::to_string(z) + "\n"; bool early = false, late = false;
				for (size_t a = 0; a < H.size() && !early; a++)
				{
					const std::string &lg = W.out[H[a]].errlog; size_t pos = 0;
					while ((pos = lg.find(pat, pos)) != std::string::npos)
					{
						size_t ls = lg.rfind('\n', pos); ls = (ls == std::string::npos) ? 0 : ls + 1;
						std::string line = lg.substr(ls, pos - ls);
						if (line.find(": receiving a_i failed") != std::string::npos || line.find(": bad a_i received") != std::string::npos || line.find(": receiving hata_i failed") != std::string::npos ||
							line.find(": bad hata_i received") != std::string::npos || line.find(": checking a_i resp. hata_i failed") != std::string::npos) late = true; else early = true;
						pos += pat.size();
					}
				}
				// whatever the reason (a replaced complaint value can read as a duplicated complaint, which disqualifies its
				// sender without any "complaint against" line): the honest parties' own record of the qualified set decides
				{
					const std::string &lg0 = W.out[H[0]].errlog; size_t qp = lg0.rfind(": Qual = {");
					if (qp != std::string::npos)
					{
						size_t qe = lg0.find('}', qp);
						std::string qs = lg0.substr(qp, qe == std::string::npos ? std::string::npos : qe - qp);
						if (qs.find(" P_" + std::to_string(z) + " ") == std::string::npos) early = true;
					}
				}
				if (early) { W.res.cnt["probe.flip_zeroed_party_disqualified"]++; continue; }
				W.res.cnt[late ? "probe.flip_zeroed_opening_reconstructed" : "probe.flip_zeroed_broadcast_harmless"]++;
				if (W.out[z].coin != W.out[H[0]].coin)
					W.violate("C17", "coin_ignores_committed_value", "party " + std::to_string(z) + " stayed qualified and computes another coin than the honest parties after one of its broadcasts was replaced by " + std::string(late ? "a wrong opening" : "0 or 1"));
			}
		// shares match the verification keys and interpolate to the secret behind the public key
		if (W.res.ok() && (W.proto == PR_GJKR || W.proto == PR_CGJKR_DKG || W.proto == PR_DSS))
		{
			Z y; mpz_set_str(y, W.out[H[0]].y.c_str(), 16);
			if (W.proto == PR_GJKR)
				for (size_t a = 0; a < H.size() && W.res.ok(); a++)
				{
					Z x, gx; mpz_set_str(x, W.out[H[a]].x_i.c_str(), 16); mpz_powm(gx, G.g, x, G.p);
					for (size_t b = 0; b < H.size(); b++)
						if (W.out[H[b]].v_i[H[a]] != zs(gx))
						{ W.violate("C15", "share_does_not_match_verification_key", "g^{x_" + std::to_string(H[a]) + "} differs from v_" + std::to_string(H[a]) + " held by party " + std::to_string(H[b])); break; }
				}
			if (W.res.ok() && H.size() >= W.t + 1)
			{
				std::vector<std::vector<size_t> > subs; std::vector<size_t> cur;
				subsets(H.size(), W.t + 1, 0, cur, subs);
				Z x0; bool first = true;
				for (size_t s = 0; s < subs.size() && W.res.ok(); s++)
				{
					std::vector<std::pair<size_t, Z> > pts;
					for (size_t k = 0; k < subs[s].size(); k++) { Z x; mpz_set_str(x, W.out[H[subs[s][k]]].x_i.c_str(), 16); pts.push_back(std::make_pair(H[subs[s][k]], x)); }
					Z x; lagrange_at_zero(pts, G.q, x);
					if (first) { x0 = x; first = false; Z gx; mpz_powm(gx, G.g, x, G.p);
						if (mpz_cmp(gx, y)) W.violate("C15", "shares_do_not_open_public_key", "t+1 honest shares interpolate to x with g^x != y"); }
					else if (mpz_cmp(x, x0)) W.violate("C15", "subsets_interpolate_differently", "two (t+1)-subsets of honest shares interpolate to different secrets");
					W.res.cnt["probe.subsets_interpolated"]++;
				}
				// refresh: shares change, secret and key do not
				if (W.res.ok() && !W.out[H[0]].x_i_before_refresh.empty())
				{
					std::vector<std::pair<size_t, Z> > pts;
					for (size_t k = 0; k <= W.t; k++) { Z x; mpz_set_str(x, W.out[H[k]].x_i_before_refresh.c_str(), 16); pts.push_back(std::make_pair(H[k], x)); }
					Z xb; lagrange_at_zero(pts, G.q, xb);
					if (mpz_cmp(xb, x0)) W.violate("C15", "refresh_changes_secret", "the interpolated secret differs before and after the share refresh");
					else if (W.out[H[0]].y_before_refresh != W.out[H[0]].y) W.violate("C15", "refresh_changes_public_key", "public key changed by the refresh");
					else
					{
						bool changed = false;
						for (size_t a = 0; a < H.size(); a++) if (W.out[H[a]].x_i != W.out[H[a]].x_i_before_refresh) changed = true;
						if (!changed && W.t > 0) W.violate("C15", "refresh_keeps_shares", "no honest share changed in the refresh");
					}
					W.res.cnt["probe.refresh_checked"]++;
				}
			}
		}
		// stand-alone Joint-RVSS: commitments of the qualified dealers agree, every honest share pair opens the
		// combined commitment, and every (t'+1)-subset of honest shares interpolates to the same secret
		if (W.res.ok() && W.proto == PR_RVSS)
		{
			std::vector<size_t> Q; { std::istringstream qs(W.out[H[0]].qual); std::string tok; while (std::getline(qs, tok, ',')) if (!tok.empty()) Q.push_back((size_t)atoi(tok.c_str())); }
			for (size_t a = 1; a < H.size() && W.res.ok(); a++)
				for (size_t k = 0; k < Q.size(); k++)
					if (Q[k] < W.out[H[0]].v_i.size() && Q[k] < W.out[H[a]].v_i.size() && W.out[H[0]].v_i[Q[k]] != W.out[H[a]].v_i[Q[k]])
					{ W.violate("C15", "rvss_commitments_differ", "honest parties hold different commitments of qualified dealer " + std::to_string(Q[k])); break; }
			for (size_t a = 0; a < H.size() && W.res.ok(); a++)
			{
				const PartyOut &po = W.out[H[a]];
				Z x, xp, lhs, t1, rhs(1), idx, pw;
				mpz_set_str(x, po.x_i.c_str(), 16); mpz_set_str(xp, po.xprime_i.c_str(), 16);
				mpz_powm(lhs, G.g, x, G.p); mpz_powm(t1, G.h, xp, G.p); mpz_mul(lhs, lhs, t1); mpz_mod(lhs, lhs, G.p);
				for (size_t k = 0; k < Q.size(); k++)
				{
					if (Q[k] >= po.v_i.size()) continue;
					std::istringstream row(po.v_i[Q[k]]); std::string tok; size_t e = 0;
					while (std::getline(row, tok, ','))
					{
						if (tok.empty()) continue;
						Z c; mpz_set_str(c, tok.c_str(), 16);
						mpz_set_ui(idx, (unsigned long)(H[a] + 1)); mpz_pow_ui(pw, idx, (unsigned long)e);
						mpz_powm(t1, c, pw, G.p); mpz_mul(rhs, rhs, t1); mpz_mod(rhs, rhs, G.p); e++;
					}
					if (e != W.tprime + 1) { W.violate("C15", "rvss_commitment_count", "dealer " + std::to_string(Q[k]) + " has " + std::to_string(e) + " commitments at party " + std::to_string(H[a]) + ", t'+1 = " + std::to_string(W.tprime + 1)); break; }
				}
				if (W.res.ok() && mpz_cmp(lhs, rhs)) W.violate("C15", "rvss_share_does_not_open_commitments", "g^{x_i} h^{x'_i} of honest party " + std::to_string(H[a]) + " differs from the product of the qualified dealers' commitments");
				W.res.cnt["probe.rvss_share_checked"]++;
			}
			if (W.res.ok() && H.size() >= W.tprime + 1)
			{
				std::vector<std::vector<size_t> > subs; std::vector<size_t> cur; subsets(H.size(), W.tprime + 1, 0, cur, subs);
				Z x0; bool first = true;
				for (size_t s2 = 0; s2 < subs.size() && W.res.ok(); s2++)
				{
					std::vector<std::pair<size_t, Z> > pts;
					for (size_t k = 0; k < subs[s2].size(); k++) { Z x; mpz_set_str(x, W.out[H[subs[s2][k]]].x_i.c_str(), 16); pts.push_back(std::make_pair(H[subs[s2][k]], x)); }
					Z x; lagrange_at_zero(pts, G.q, x);
					if (first) { x0 = x; first = false; }
					else if (mpz_cmp(x, x0)) W.violate("C15", "subsets_interpolate_differently", "two (t'+1)-subsets of honest Joint-RVSS shares interpolate to different secrets");
					W.res.cnt["probe.subsets_interpolated"]++;
				}
			}
		}
		// dealer-based sharing
		if (W.res.ok() && W.proto == PR_VSS)
		{
			size_t dealer = (size_t)plan.get("dealer", 0) % W.n;
			bool dealer_honest = !W.faulty[dealer];
			int acc = 0, rej = 0;
			for (size_t a = 0; a < H.size(); a++) { if (W.out[H[a]].vss_share_ret[0] == 1) acc++; else rej++; }
			if (dealer_honest)
			{
				if (rej) W.violate("C15", "honest_dealer_rejected", std::to_string(rej) + " honest parties rejected the sharing of an honest dealer");
				else
					for (size_t a = 0; a < H.size() && W.res.ok(); a++)
					{
						if (W.out[H[a]].vss_rec_ret[0] != 1)
						{
							// the dealer of this implementation holds no share of its own: reconstruction needs t+1 correct
							// shares from the other n-1 parties (finding F16: impossible with t deviating share holders
							// when n = 2t+1) - named apart, so that the recorded finding covers nothing else
							size_t fnd = 0; for (size_t z = 0; z < W.n; z++) if (W.faulty[z] && z != dealer) fnd++;
							bool too_few_holders = (W.n - 1 - fnd) < (W.t + 1);
							W.violate("C15", too_few_holders ? "reconstruct_failed_dealer_holds_no_share" : "reconstruct_failed", "Reconstruct failed at honest party " + std::to_string(H[a]) + " for an honest dealer" +
								(too_few_holders ? " (only " + std::to_string(W.n - 1 - fnd) + " non-deviating share holders besides the dealer, t+1 = " + std::to_string(W.t + 1) + " needed)" : std::string()));
						}
						else if (H[a] != dealer && W.out[H[a]].vss_out[0] != zs(W.vss_secret)) W.violate("C15", "reconstructed_wrong_secret", "party " + std::to_string(H[a]) + " reconstructed " + W.out[H[a]].vss_out[0] + " instead of the dealer's secret");
					}
			}
			else
			{
				if (acc && rej) W.violate("C15", "vss_outcome_differs", "honest parties disagree on accepting the faulty dealer's sharing");
				else if (acc)
				{
					// all accept: shares are consistent with the commitments and interpolate to one value
					std::string ref;
					for (size_t a = 0; a < H.size() && W.res.ok(); a++)
						if (W.out[H[a]].vss_rec_ret[0] == 1)
						{
							if (ref.empty()) ref = W.out[H[a]].vss_out[0];
							else if (ref != W.out[H[a]].vss_out[0]) W.violate("C15", "reconstruction_differs", "honest parties reconstructed different secrets from a faulty dealer's accepted sharing");
						}
					std::vector<std::vector<size_t> > subs; std::vector<size_t> cur; subsets(H.size(), W.t + 1, 0, cur, subs);
					Z x0; bool first = true;
					for (size_t s = 0; s < subs.size() && W.res.ok() && H.size() >= W.t + 1; s++)
					{
						std::vector<std::pair<size_t, Z> > pts;
						for (size_t k = 0; k < subs[s].size(); k++) { Z x; mpz_set_str(x, W.out[H[subs[s][k]]].x_i.c_str(), 16); pts.push_back(std::make_pair(H[subs[s][k]], x)); }
						Z x; lagrange_at_zero(pts, G.q, x);
						if (first) { x0 = x; first = false; } else if (mpz_cmp(x, x0)) W.violate("C15", "subsets_interpolate_differently", "accepted shares of a faulty dealer do not lie on one polynomial");
					}
				}
			}
			W.res.cnt[dealer_honest ? "probe.vss_honest_dealer" : "probe.vss_faulty_dealer"]++;
		}
		// signatures
		if (W.res.ok() && (W.proto == PR_GJKR || W.proto == PR_DSS) && !W.out[H[0]].sigs.empty())
		{
			Z y; mpz_set_str(y, (W.proto == PR_GJKR ? W.out[H[0]].y2 : W.out[H[0]].y).c_str(), 16);
			for (size_t k = 0; k < W.out[H[0]].sigs.size() && W.res.ok(); k++)
			{
				for (size_t a = 1; a < H.size() && W.res.ok(); a++)
					if (W.out[H[a]].sigs.size() > k && W.out[H[a]].sigs[k] != W.out[H[0]].sigs[k])
						W.violate("C16", "signatures_differ", "honest parties obtained different signatures on message #" + std::to_string(k));
				if (!W.res.ok() || W.out[H[0]].sigs[k].first == "-") continue;
				Z A, B; mpz_set_str(A, W.out[H[0]].sigs[k].first.c_str(), 16); mpz_set_str(B, W.out[H[0]].sigs[k].second.c_str(), 16);
				bool ok;
				if (W.proto == PR_GJKR)
				{
					// textbook Schnorr: c = H(m, g^s y^{-c})
					Z r, yc, h; mpz_powm(r, G.g, B, G.p); mpz_powm(yc, y, A, G.p); mpz_invert(yc, yc, G.p); mpz_mul(r, r, yc); mpz_mod(r, r, G.p);
					tmcg_mpz_shash(h, 2, (mpz_srcptr)W.msgs[k], (mpz_srcptr)r);
					ok = (mpz_cmp(h, A) == 0);
				}
				else
				{
					// textbook DSA: 0<r,s<q, r = (g^{m/s} y^{r/s} mod p) mod q
					Z w, u1, u2, v, t2;
					ok = mpz_sgn((mpz_srcptr)A) > 0 && mpz_cmp(A, G.q) < 0 && mpz_sgn((mpz_srcptr)B) > 0 && mpz_cmp(B, G.q) < 0 && mpz_invert(w, B, G.q);
					if (ok)
					{
						mpz_mul(u1, W.msgs[k], w); mpz_mod(u1, u1, G.q); mpz_mul(u2, A, w); mpz_mod(u2, u2, G.q);
						mpz_powm(v, G.g, u1, G.p); mpz_powm(t2, y, u2, G.p); mpz_mul(v, v, t2); mpz_mod(v, v, G.p); mpz_mod(v, v, G.q);
						ok = (mpz_cmp(v, A) == 0);
					}
				}
				W.res.cnt["probe.signatures_checked"]++;
				if (!ok) W.violate("C16", std::string("signature_invalid_") + (W.proto == PR_GJKR ? "schnorr" : "dsa") + (nf ? "_with_faulty_signer" : "_all_honest"), "the threshold signature on message #" + std::to_string(k) + " does not satisfy the textbook verification equation under the joint key");
				// the library's verifier: accepts the signature, refuses the altered and out-of-range copies
				for (size_t a = 0; a < H.size() && W.res.ok(); a++)
				{
					const std::string &v = W.out[H[a]].sig_msgs[k];
					if (v == "-") continue;
					if (v[0] != '1') W.violate("C16", "library_verifier_rejects_valid", "library Verify refuses the produced signature");
					for (size_t z = 1; z < v.size() && W.res.ok(); z++)
						if (v[z] == '1') W.violate("C16", "library_verifier_accepts_invalid", "library Verify accepts altered / out-of-range copy #" + std::to_string(z) + " of the signature");
				}
			}
		}
		if (W.proto == PR_FLIP) W.res.cnt["probe.flips"]++;
	}
	W.res.cnt["probe.restarts"] += 0;
	for (size_t i = 0; i < W.n; i++) W.res.cnt["probe.restarts"] += W.out[i].restarts;
	W.res.cnt["probe.units_sent"] += W.unet->units_sent + W.bnet->units_sent;
	W.res.cnt["probe.complaints"] += count_substr(cerr_all, "complaint");
	W.res.fingerprint = W.S.hist.h; W.res.steps = W.S.steps; W.res.sim_ms = W.S.now_ms;
	W.res.nontrivial = true;
	if (counts_out) *counts_out = all_sent;
	return W.res;
}

static RunResult dkg_execute(const Plan &plan)
{
	bool need = false;
	for (size_t i = 0; i < plan.ops.size(); i++)
		if (plan.ops[i].kind == "f_faulty" && ((plan.ops[i].arg(1) % 7) == 2 || (plan.ops[i].arg(1) % 7) == 4 || (plan.ops[i].arg(1) % 7) == 6)) need = true;
	if (!need) return dkg_execute_inner(plan, NULL, NULL);
	std::vector<uint64_t> counts;
	dkg_execute_inner(plan, NULL, &counts);
	return dkg_execute_inner(plan, &counts, NULL);
}

static void dkg_shrink_more(const Plan &plan, std::vector<Plan> &out)
{
	if (plan.get("restart", 0)) { Plan q = plan; q.cfg["restart"] = 0; out.push_back(q); }
	if (plan.get("skew", 0)) { Plan q = plan; q.cfg["skew"] = 0; out.push_back(q); }
	if (plan.get("slow", -1) >= 0) { Plan q = plan; q.cfg["slow"] = -1; out.push_back(q); }
	if (plan.get("lat", 0)) { Plan q = plan; q.cfg["lat"] = 0; out.push_back(q); }
	if (plan.get("refresh", 0)) { Plan q = plan; q.cfg["refresh"] = 0; out.push_back(q); }
	if (plan.get("nmsg", 1) > 1) { Plan q = plan; q.cfg["nmsg"] = 1; out.push_back(q); }
	if (plan.get("n", 4) > 3 && plan.get("t", 0) == 0) { Plan q = plan; q.cfg["n"] = plan.get("n", 4) - 1; out.push_back(q); }
}

int main(int argc, char **argv)
{
	Scenario sc;
	sc.name = "dkg";
	sc.real_components = "src/PedersenVSS.cc, GennaroJareckiKrawczykRabinDKG.cc (DKG + NTS), CanettiGennaroJareckiKrawczykRabinASTC.cc (RVSS, ZVSS, DKG, DSS incl. Refresh), JareckiLysyanskayaASTC.cc (RVSS, EDCF::Flip), CachinKursawePetzoldShoupSEABP.cc (reliable broadcast incl. Sync barriers), mpz_helper interpolation";
	sc.stub_components = "aiounicast_select replaced by SimUnicast (two nets: private channels and broadcast transport, seeded latencies, per-link FIFO) except in full-stack runs (probe.fullstack_runs; 1 of 8 by default, all with --fullstack), where the real aiounicast_select runs over simulated descriptors and only the kernel (pipes, select) is a stub; processes (one baton-scheduled task per party); wall clock (discrete-event, per-task skew); entropy; faulty parties: library switch, silence, crash after k messages, mutating/dropping links";
	sc.rule = "one case = protocol (New-DKG + threshold Schnorr, Pedersen VSS with honest or faulty dealer, Canetti et al. DKG with refresh, threshold DSS with refresh, n-party coin flip) x n=3..7, t<=(n-1)/3 (New-DKG, dealer-based VSS and coin flip also (n-1)/2), stand-alone Joint-RVSS with t'>=t, up to t deviating parties of seven kinds (library switch, silent, crash after a fraction of its messages, per-recipient mutating links, out-of-range values, wrong share to m recipients, one own broadcast replaced) of which at most (n-1)/3 deviate below the broadcast, transport = SimUnicast or (1 run in 8) the library's aiounicast_select over simulated descriptors with fragmented writes, short reads/writes and EINTR, latency class, one slow honest party, clock skew, restart (PublishState/stream constructor) of a subset of parties at phase boundaries, messages 0/1/q-1/q/random; oracle by harness GMP code over the collected public members (agreement, share/verification-key match, every (t+1)-subset interpolation, textbook Schnorr/DSA); runs in which an honest party timed out on an honest party are counted as excluded; distinct = history fingerprint over all messages and scheduling decisions";
	sc.generate = dkg_generate; sc.execute = dkg_execute; sc.shrink_more = dkg_shrink_more; sc.worker_init = dkg_init;
	return runner_main(argc, argv, sc);
}
