// Scenario cards (C01, C02, C03, C04, C05, C11 wire monitor; C12 on every receiving side):
// a k-player card table in the discrete-log encoding.  Every player is a set of real library
// instances; every proof is a session between a prover task and a verifier task over a simulated
// stream pair with a relaying man in the middle.
#include "common.hh"
#include <memory>
#include <algorithm>

using namespace sim;

namespace {

struct GroupText { std::string text; unsigned long fs, ss; int kind; }; // kind 0 dlog, 1 canonical g, 2 QR group
static std::vector<GroupText> g_groups;

static void cards_init(const Tier &)
{
	if (!g_groups.empty()) return;
	Sim S(0xca4d5001ULL, 2);
	S.single_party = 0;
	CerrCapture cap;
	static const unsigned long sz[][2] = { {512, 160}, {512, 160}, {768, 200} };
	for (int i = 0; i < 3; i++)
	{
		BarnettSmartVTMF_dlog v(sz[i][0], sz[i][1], false);
		std::ostringstream o; v.PublishGroup(o);
		GroupText g; g.text = o.str(); g.fs = sz[i][0]; g.ss = sz[i][1]; g.kind = 0; g_groups.push_back(g);
	}
	{
		BarnettSmartVTMF_dlog v(512, 160, true);
		std::ostringstream o; v.PublishGroup(o);
		GroupText g; g.text = o.str(); g.fs = 512; g.ss = 160; g.kind = 1; g_groups.push_back(g);
	}
	{
		BarnettSmartVTMF_dlog_GroupQR v(384, 160);
		std::ostringstream o; v.PublishGroup(o);
		GroupText g; g.text = o.str(); g.fs = 384; g.ss = 160; g.kind = 2; g_groups.push_back(g);
	}
}

struct Player
{
	std::unique_ptr<BarnettSmartVTMF_dlog> vtmf;
	std::unique_ptr<SchindelhauerTMCG> tmcg;
	std::unique_ptr<GrothVSSHE> vsshe;
	std::unique_ptr<HooghSchoenmakersSkoricVillegasVRHE> vrhe;
};

struct CardRec { VTMF_Card c; size_t type; size_t masked; CardRec() : type(0), masked(0) {} };
struct MaskRec { VTMF_Card in, out; VTMF_CardSecret cs; size_t by; size_t type; };
struct VMaskRec { Z m, c1, c2, r; size_t by; size_t type; };
struct StackRec { TMCG_Stack<VTMF_Card> s; std::vector<size_t> types; };
struct MixRec { TMCG_Stack<VTMF_Card> in, out; TMCG_StackSecret<VTMF_CardSecret> ss; bool cyclic; bool really_cyclic; size_t by; size_t offset; };

enum { K_KEY = 0, K_VMASK, K_REMASK, K_DECRYPT, K_CUT, K_GROTH, K_HOOGH, K_NUM };

struct Outcome { int vret, pret; std::vector<LineRec> tr; bool eof; std::string vexc; };

struct World
{
	const Plan &plan;
	Sim S;
	const GroupText *G;
	size_t k, w, kappa, maxtype, nmax;
	unsigned long ell_e;
	bool tap;                            // timing attack protection knob
	std::vector<Player> P;
	std::unique_ptr<BarnettSmartVTMF_dlog> outsider; // a key holder that is not at the table
	std::vector<CardRec> cards;
	std::vector<MaskRec> masks;
	std::vector<VMaskRec> vmasks;
	std::vector<StackRec> stacks;
	std::vector<MixRec> mixes;
	RunResult res;
	CerrCapture cap;
	bool any_fault;
	World(const Plan &p) : plan(p), S(p.seed, 10), G(NULL), k(2), w(2), kappa(4), maxtype(4), nmax(8), ell_e(32), tap(true), any_fault(false) {}
	void violate(const std::string &prop, const std::string &cls, const std::string &d)
	{
		std::ostringstream c; c << " [k=" << k << " w=" << w << " kappa=" << kappa << " group=" << G->fs << "/" << G->ss << " kind=" << G->kind << " l_e=" << ell_e << "]";
		res.violate(prop, cls, "cards:" + cls, d + c.str());
	}
};

static const char *kind_name(int kind)
{
	static const char *n[] = { "keyshare", "vmask", "remask", "decrypt", "cutnchoose", "groth", "hoogh" };
	return n[kind % K_NUM];
}

// ---- C11 wire monitor: export -> import into a fresh object -> export again
template<class T> static bool eq_if_any(const T &a, const T &b, long) { (void)a; (void)b; return true; }
template<class T> static auto eq_if_any(const T &a, const T &b, int) -> decltype(a == b) { return a == b; }
template<class T> static void roundtrip(World &W, const T &obj, const char *what)
{
	std::ostringstream o1; o1 << obj;
	T fresh;
	std::istringstream in(o1.str() + "\n");
	in >> fresh;
	std::ostringstream o2; o2 << fresh;
	W.res.cnt["probe.roundtrips"]++;
	if (!in.good() && !in.eof()) { W.violate("C11", std::string("import_refused_") + what, std::string("re-import of an exported ") + what + " failed"); return; }
	if (o1.str() != o2.str()) W.violate("C11", std::string("roundtrip_text_") + what, std::string("re-export of an imported ") + what + " differs: " + o1.str().substr(0, 80) + " vs " + o2.str().substr(0, 80));
	else if (!eq_if_any(fresh, obj, 0)) W.violate("C11", std::string("roundtrip_equal_") + what, std::string("imported ") + what + " does not compare equal to the original");
}

// ---- sessions -----------------------------------------------------------------------------
typedef std::function<bool(std::istream &, std::ostream &)> RoleFn;

static Outcome run_session(World &W, size_t prover, size_t verifier, RoleFn pf, RoleFn vf, RelayFn relay, bool chunked)
{
	Session ses(W.S);
	ses.chunked = chunked;
	ses.relay = relay;
	// the prover is side A (direction 0), the verifier side B (direction 1)
	ses.run((int)prover, (int)verifier, pf, vf);
	Outcome o; o.pret = ses.ret[0]; o.vret = ses.ret[1]; o.tr = ses.transcript; o.eof = ses.eof_injected; o.vexc = ses.exc[1];
	W.res.cnt["probe.sessions"]++;
	return o;
}

// +1 on the tok-th long alphanumeric token of a structured line (cards, stacks, secrets)
static bool mutate_structured(const std::string &line, size_t tok, std::string &out)
{
	std::vector<std::pair<size_t, size_t> > toks;
	size_t i = 0;
	while (i < line.size())
	{
		if (isalnum((unsigned char)line[i]))
		{
			size_t j = i; while (j < line.size() && isalnum((unsigned char)line[j])) j++;
			if (j - i >= 8) toks.push_back(std::make_pair(i, j - i));
			i = j;
		}
		else i++;
	}
	if (toks.empty()) return false;
	std::pair<size_t, size_t> t = toks[tok % toks.size()];
	std::string m;
	if (!mutate_int_line(line.substr(t.first, t.second), 0, m)) return false;
	out = line.substr(0, t.first) + m + line.substr(t.first + t.second);
	return out != line;
}

// a well-formed stack secret with one entry less (C12: dimension mismatch reaches the verifier)
static bool resize_stacksecret(const std::string &line, std::string &out)
{
	if (line.compare(0, 4, "sts^") != 0) return false;
	TMCG_StackSecret<VTMF_CardSecret> ss;
	if (!ss.import(line) || ss.size() < 2) return false;
	TMCG_StackSecret<VTMF_CardSecret> t;
	size_t drop = ss.size() - 1; // drop the entry that carries the largest index
	for (size_t i = 0; i < ss.size(); i++) if (ss[i].first == ss.size() - 1) drop = i;
	for (size_t i = 0; i < ss.size(); i++) if (i != drop) t.push(ss[i].first, ss[i].second);
	std::ostringstream o; o << t; out = o.str();
	return true;
}

struct Fault
{
	int type;      // 0 none, 1 false statement, 2 line mutation, 3 forced coins + guessing prover, 5 truncation, 6 resized secret
	int64_t a, b, c;
	Fault() : type(0), a(0), b(0), c(0) {}
};

// build the two role functions for one proof of the given kind about record 'idx'
struct ProofSpec
{
	int kind, variant; size_t prover, verifier, idx;
	ProofSpec() : kind(0), variant(0), prover(0), verifier(1), idx(0) {}
};

struct Statement // the public input as the verifier sees it (may be edited by a fault)
{
	Z key;                                  // K_KEY
	Z m, c1, c2;                            // K_VMASK
	VTMF_Card cin, cout;                    // K_REMASK, K_DECRYPT (cin)
	TMCG_Stack<VTMF_Card> sin, sout;        // stack kinds
	bool cyclic;
	Statement() : cyclic(false) {}
};

static void make_pairs(std::vector<std::pair<mpz_ptr, mpz_ptr> > &v, const TMCG_Stack<VTMF_Card> &s, std::vector<Z> &store)
{
	store.resize(store.size() + 2 * s.size());
	size_t base = store.size() - 2 * s.size();
	for (size_t i = 0; i < s.size(); i++)
	{
		mpz_set(store[base + 2 * i], s[i].c_1); mpz_set(store[base + 2 * i + 1], s[i].c_2);
	}
	for (size_t i = 0; i < s.size(); i++)
		v.push_back(std::pair<mpz_ptr, mpz_ptr>(store[base + 2 * i], store[base + 2 * i + 1]));
}

static bool applicable(World &W, const ProofSpec &ps)
{
	switch (ps.kind)
	{
		case K_KEY: return true;
		case K_VMASK: return !W.vmasks.empty();
		case K_REMASK: return !W.masks.empty();
		case K_DECRYPT: return !W.cards.empty();
		case K_CUT: return !W.mixes.empty();
		case K_GROTH: return !W.mixes.empty() && W.mixes[ps.idx % W.mixes.size()].in.size() >= 2 && W.mixes[ps.idx % W.mixes.size()].in.size() <= W.nmax;
		case K_HOOGH: { if (W.mixes.empty()) return false; const MixRec &m = W.mixes[ps.idx % W.mixes.size()]; return m.cyclic && m.in.size() >= 2; }
	}
	return false;
}

static void true_statement(World &W, const ProofSpec &ps, Statement &st)
{
	switch (ps.kind)
	{
		case K_KEY: mpz_set(st.key, W.P[ps.prover].vtmf->h_i); break;
		case K_VMASK: { const VMaskRec &r = W.vmasks[ps.idx % W.vmasks.size()]; st.m = r.m; st.c1 = r.c1; st.c2 = r.c2; break; }
		case K_REMASK: { const MaskRec &r = W.masks[ps.idx % W.masks.size()]; st.cin = r.in; st.cout = r.out; break; }
		case K_DECRYPT: st.cin = W.cards[ps.idx % W.cards.size()].c; break;
		default: { const MixRec &r = W.mixes[ps.idx % W.mixes.size()]; st.sin = r.in; st.sout = r.out; st.cyclic = r.cyclic; break; }
	}
}

static size_t actual_prover(World &W, const ProofSpec &ps)
{
	if (ps.kind == K_VMASK) return W.vmasks[ps.idx % W.vmasks.size()].by;
	if (ps.kind == K_REMASK) return W.masks[ps.idx % W.masks.size()].by;
	if (ps.kind >= K_CUT) return W.mixes[ps.idx % W.mixes.size()].by;
	return ps.prover;
}

static RoleFn prover_role(World &W, const ProofSpec &ps, bool use_outsider, const Statement *pst = NULL)
{
	// pst: the prover, too, works on this (false) statement with its honest witness - a prover that commits to
	// the statement the verifier holds; needed for the non-interactive arguments, whose challenges hash the statement
	World *Wp = &W; ProofSpec s = ps;
	return [Wp, s, use_outsider, pst](std::istream &in, std::ostream &out) -> bool
	{
		World &W = *Wp;
		Player &p = W.P[s.prover];
		switch (s.kind)
		{
			case K_KEY:
				if (s.variant == 0) return p.vtmf->KeyGenerationProtocol_ProveKey_interactive(in, out);
				else
				{
					JareckiLysyanskayaEDCF cf(2, 0, p.vtmf->p, p.vtmf->q, p.vtmf->g, p.vtmf->h, W.G->fs, W.G->ss);
					return p.vtmf->KeyGenerationProtocol_ProveKey_interactive_publiccoin(&cf, in, out);
				}
			case K_VMASK: { const VMaskRec &r = W.vmasks[s.idx % W.vmasks.size()];
				p.vtmf->VerifiableMaskingProtocol_Prove(r.m, r.c1, r.c2, r.r, out); return true; }
			case K_REMASK: { const MaskRec &r = W.masks[s.idx % W.masks.size()];
				p.tmcg->TMCG_ProveMaskCard(r.in, r.out, r.cs, p.vtmf.get(), in, out); return true; }
			case K_DECRYPT: { const CardRec &r = W.cards[s.idx % W.cards.size()];
				BarnettSmartVTMF_dlog *v = use_outsider ? W.outsider.get() : p.vtmf.get();
				p.tmcg->TMCG_ProveCardSecret(r.c, v, in, out); return true; }
			case K_CUT: { const MixRec &r = W.mixes[s.idx % W.mixes.size()];
				p.tmcg->TMCG_ProveStackEquality(r.in, r.out, r.ss, r.cyclic, p.vtmf.get(), in, out); return true; }
			case K_GROTH: { const MixRec &r = W.mixes[s.idx % W.mixes.size()];
				const TMCG_Stack<VTMF_Card> &pin = pst ? pst->sin : r.in, &pout = pst ? pst->sout : r.out;
				if (s.variant == 0) p.tmcg->TMCG_ProveStackEquality_Groth(pin, pout, r.ss, p.vtmf.get(), p.vsshe.get(), in, out);
				else if (s.variant == 1) p.tmcg->TMCG_ProveStackEquality_Groth_noninteractive(pin, pout, r.ss, p.vtmf.get(), p.vsshe.get(), out);
				else
				{
					std::vector<Z> store; store.reserve(6 * r.in.size() + 4);
					std::vector<std::pair<mpz_ptr, mpz_ptr> > e, E; std::vector<size_t> pi; std::vector<mpz_ptr> R;
					std::vector<Z> rs(r.in.size());
					make_pairs(e, pin, store); make_pairs(E, pout, store);
					for (size_t i = 0; i < r.in.size(); i++) { pi.push_back(r.ss[i].first); mpz_set(rs[i], r.ss[r.ss[i].first].second.r); R.push_back(rs[i]); }
					p.vsshe->Prove_interactive(pi, R, e, E, in, out);
				}
				return true; }
			case K_HOOGH: { const MixRec &r = W.mixes[s.idx % W.mixes.size()];
				const TMCG_Stack<VTMF_Card> &pin = pst ? pst->sin : r.in, &pout = pst ? pst->sout : r.out;
				if (s.variant == 0) p.tmcg->TMCG_ProveStackEquality_Hoogh(pin, pout, r.ss, p.vtmf.get(), p.vrhe.get(), in, out);
				else p.tmcg->TMCG_ProveStackEquality_Hoogh_noninteractive(pin, pout, r.ss, p.vtmf.get(), p.vrhe.get(), out);
				return true; }
		}
		return false;
	};
}

static RoleFn verifier_role(World &W, const ProofSpec &ps, const Statement *st)
{
	World *Wp = &W; ProofSpec s = ps;
	return [Wp, s, st](std::istream &in, std::ostream &out) -> bool
	{
		World &W = *Wp;
		Player &v = W.P[s.verifier];
		switch (s.kind)
		{
			case K_KEY:
				if (s.variant == 0) return v.vtmf->KeyGenerationProtocol_VerifyKey_interactive(st->key, in, out);
				else
				{
					JareckiLysyanskayaEDCF cf(2, 0, v.vtmf->p, v.vtmf->q, v.vtmf->g, v.vtmf->h, W.G->fs, W.G->ss);
					return v.vtmf->KeyGenerationProtocol_VerifyKey_interactive_publiccoin(st->key, &cf, in, out);
				}
			case K_VMASK: return v.vtmf->VerifiableMaskingProtocol_Verify(st->m, st->c1, st->c2, in);
			case K_REMASK: return v.tmcg->TMCG_VerifyMaskCard(st->cin, st->cout, v.vtmf.get(), in, out);
			case K_DECRYPT:
				v.tmcg->TMCG_SelfCardSecret(st->cin, v.vtmf.get());
				return v.tmcg->TMCG_VerifyCardSecret(st->cin, v.vtmf.get(), in, out);
			case K_CUT: return v.tmcg->TMCG_VerifyStackEquality(st->sin, st->sout, st->cyclic, v.vtmf.get(), in, out);
			case K_GROTH:
				if (s.variant == 0) return v.tmcg->TMCG_VerifyStackEquality_Groth(st->sin, st->sout, v.vtmf.get(), v.vsshe.get(), in, out);
				else if (s.variant == 1) return v.tmcg->TMCG_VerifyStackEquality_Groth_noninteractive(st->sin, st->sout, v.vtmf.get(), v.vsshe.get(), in);
				else
				{
					if (st->sin.size() != st->sout.size()) return false;
					std::vector<Z> store; store.reserve(4 * st->sin.size() + 4);
					std::vector<std::pair<mpz_ptr, mpz_ptr> > e, E;
					make_pairs(e, st->sin, store); make_pairs(E, st->sout, store);
					return v.vsshe->Verify_interactive(e, E, in, out);
				}
			case K_HOOGH:
				if (s.variant == 0) return v.tmcg->TMCG_VerifyStackEquality_Hoogh(st->sin, st->sout, v.vtmf.get(), v.vrhe.get(), in, out);
				else return v.tmcg->TMCG_VerifyStackEquality_Hoogh_noninteractive(st->sin, st->sout, v.vtmf.get(), v.vrhe.get(), in);
		}
		return false;
	};
}

static void mul_g(World &W, mpz_ptr x)
{
	mpz_mul(x, x, W.P[0].vtmf->g); mpz_mod(x, x, W.P[0].vtmf->p);
}

// edit the verifier's public input; returns the property the edit belongs to ("" = not applicable)
static std::string falsify(World &W, const ProofSpec &ps, Statement &st, int64_t sub, int64_t pos, std::string &what)
{
	Player &p0 = W.P[0];
	switch (ps.kind)
	{
		case K_KEY: mul_g(W, st.key); what = "key share multiplied by g (prover does not know its logarithm)"; return "C04";
		case K_VMASK:
			if (sub % 3 == 0) { mul_g(W, st.c2); what = "masked value whose type differs (c_2*g)"; return "C04"; }
			if (sub % 3 == 1) { mul_g(W, st.c1); what = "public input c_1 changed"; return "C05"; }
			mul_g(W, st.m); what = "public input m changed"; return "C05";
		case K_REMASK:
			if (sub % 4 == 0) { mul_g(W, st.cout.c_2); what = "mask that changes the type (cc.c_2*g)"; return "C04"; }
			if (sub % 4 == 1) { mul_g(W, st.cout.c_1); what = "public input cc.c_1 changed"; return "C05"; }
			if (sub % 4 == 2) { mul_g(W, st.cin.c_1); what = "public input c.c_1 changed"; return "C05"; }
			mul_g(W, st.cin.c_2); what = "public input c.c_2 changed"; return "C05";
		case K_DECRYPT:
			if (sub % 2 == 0) { what = "decryption share computed with a key that is not at the table"; return "C04"; }
			mul_g(W, st.cin.c_1); what = "share is for another c_1"; return "C05";
		default:
		{
			size_t n = st.sout.size();
			if (n == 0) return "";
			size_t i = (size_t)pos % n, j = (size_t)(pos / 7 + 1) % n;
			TMCG_Stack<VTMF_Card> t;
			// the component-outside-the-group statements pass the arithmetic of the arguments with probability 1/4
			// when the membership test is missing: give them a fifth of the argument sessions
			if ((ps.kind == K_GROTH || ps.kind == K_HOOGH) && ((pos >> 9) % 5) == 0) sub = 7 + ((pos >> 8) & 1);
			switch (sub % 9)
			{
				case 7: // a component of an output card replaced by its negative p - x: order 2q, outside the group,
				case 8: // while its q-th power relations to the rest of the statement survive with probability 1/4
				{
					// (variant 2 of the shuffle argument calls GrothVSSHE directly: membership of the ciphertexts is a
					// precondition of that class, checked by the TMCG_VerifyStackEquality_* wrappers)
					if (ps.kind == K_GROTH && ps.variant == 2) return "";
					VTMF_Card c = st.sout[i]; mpz_ptr x = ((sub % 9) == 7) ? c.c_2 : c.c_1;
					mpz_sub(x, W.P[0].vtmf->p, x);
					for (size_t q = 0; q < n; q++) t.push(q == i ? c : st.sout[q]);
					st.sout = t; what = std::string("output stack with ") + (((sub % 9) == 7) ? "c_2" : "c_1") + " of card " + std::to_string(i) + " replaced by its negative (outside the group)"; return "C04";
				}
				case 0: // substituted: a fresh masking of an open card of another type
				{
					VTMF_Card c, cc; VTMF_CardSecret cs;
					p0.tmcg->TMCG_CreateOpenCard(c, p0.vtmf.get(), (size_t)(pos % W.maxtype));
					p0.tmcg->TMCG_CreateCardSecret(cs, p0.vtmf.get());
					p0.tmcg->TMCG_MaskCard(c, cc, cs, p0.vtmf.get());
					for (size_t q = 0; q < n; q++) t.push(q == i ? cc : st.sout[q]);
					st.sout = t; what = "output stack with card " + std::to_string(i) + " substituted"; return "C04";
				}
				case 1: // duplicated
					if (n < 2 || i == j) return "";
					for (size_t q = 0; q < n; q++) t.push(q == i ? st.sout[j] : st.sout[q]);
					st.sout = t; what = "output stack with card " + std::to_string(j) + " duplicated over " + std::to_string(i); return "C04";
				case 2: // dropped
					for (size_t q = 0; q + 1 < n; q++) t.push(st.sout[q]);
					st.sout = t; what = "output stack with the last card dropped"; return "C04";
				case 3: // re-typed
				{
					VTMF_Card c = st.sout[i]; mul_g(W, c.c_2);
					for (size_t q = 0; q < n; q++) t.push(q == i ? c : st.sout[q]);
					st.sout = t; what = "output stack with card " + std::to_string(i) + " re-typed (c_2*g)"; return "C04";
				}
				case 4: // input stack component
				{
					VTMF_Card c = st.sin[i]; mul_g(W, (pos & 1) ? c.c_1 : c.c_2);
					for (size_t q = 0; q < n; q++) t.push(q == i ? c : st.sin[q]);
					st.sin = t; what = "public input: component of input card " + std::to_string(i) + " changed"; return "C05";
				}
				case 5: // output stack c_1 component
				{
					VTMF_Card c = st.sout[i]; mul_g(W, c.c_1);
					for (size_t q = 0; q < n; q++) t.push(q == i ? c : st.sout[q]);
					st.sout = t; what = "public input: c_1 of output card " + std::to_string(i) + " changed"; return "C05";
				}
				case 6: // two output cards exchanged (another permutation than the proven one)
					if (n < 2 || i == j || st.sout[i] == st.sout[j]) return "";
					for (size_t q = 0; q < n; q++) t.push(q == i ? st.sout[j] : (q == j ? st.sout[i] : st.sout[q]));
					st.sout = t;
					what = "output cards " + std::to_string(i) + " and " + std::to_string(j) + " exchanged";
					// a plain shuffle statement stays true under an exchange; only rotations become false
					return (ps.kind == K_HOOGH || (ps.kind == K_CUT && st.cyclic)) ? "C04" : "";
			}
		}
	}
	return "";
}

static std::vector<int> challenge_bits(const Outcome &o)
{
	// cut-and-choose: verifier lines are kappa followed by one challenge per round
	std::vector<int> bits; bool first = true;
	for (size_t i = 0; i < o.tr.size(); i++)
		if (o.tr[i].dir == 1)
		{
			if (first) { first = false; continue; }
			Z v; if (mpz_set_str(v, o.tr[i].original.c_str(), TMCG_MPZ_IO_BASE) == 0) bits.push_back((int)(mpz_get_ui(v) & 1));
		}
	return bits;
}

static void do_proof(World &W, const ProofSpec &ps_in, const Fault &f, bool chunked)
{
	ProofSpec ps = ps_in;
	if (!applicable(W, ps)) return;
	ps.prover = actual_prover(W, ps);
	if (ps.verifier == ps.prover) ps.verifier = (ps.prover + 1) % W.k;
	Statement st; true_statement(W, ps, st);
	std::ostringstream id; id << kind_name(ps.kind) << "/v" << ps.variant << " prover=" << ps.prover << " verifier=" << ps.verifier;
	if (ps.kind >= K_CUT) id << " n=" << st.sin.size() << (st.cyclic ? " cyclic" : "");
	W.res.cnt[std::string("probe.proof_") + kind_name(ps.kind) + "_v" + std::to_string(ps.variant)]++;
	if (ps.kind >= K_CUT && st.sin.size() > 256) W.res.cnt["probe.proof_on_stack_above_256_cards"]++;
	Rng snapP = W.S.party[ps.prover], snapV = W.S.party[ps.verifier];

	if (ps.kind >= K_CUT && ps.kind != K_GROTH)
	{
		const MixRec &r = W.mixes[ps.idx % W.mixes.size()];
		if (r.cyclic && !r.really_cyclic)
		{
			// a non-cyclic permutation presented as a rotation: the honest prover code runs on a false statement
			W.any_fault = true;
			Outcome o = run_session(W, ps.prover, ps.verifier, prover_role(W, ps, false), verifier_role(W, ps, &st), RelayFn(), chunked);
			W.res.cnt["fault.noncyclic_rotation_proof"]++;
			if (ps.kind == K_CUT)
			{
				std::vector<int> bits = challenge_bits(o);
				bool all_ones = (bits.size() == W.kappa);
				for (size_t i = 0; i < bits.size(); i++) if (!bits[i]) all_ones = false;
				if ((o.vret == 1) != all_ones)
					W.violate("C04", "cutnchoose_not_exact", std::string("non-cyclic permutation presented as a rotation ") + (o.vret == 1 ? "accepted" : "rejected") +
						" although " + (all_ones ? "every" : "not every") + " challenge bit was 1; " + id.str());
			}
			else if (o.vret == 1)
				W.violate("C04", "false_statement_accepted_hoogh", "non-cyclic permutation accepted as a rotation; " + id.str());
			return;
		}
	}
	if (f.type == 0)
	{
		Outcome o = run_session(W, ps.prover, ps.verifier, prover_role(W, ps, false), verifier_role(W, ps, &st), RelayFn(), chunked);
		if (o.vret != 1)
			W.violate("C03", std::string("honest_proof_rejected_") + kind_name(ps.kind),
				"verifier returned " + std::to_string(o.vret) + " (" + o.vexc + ") on an honest proof of a true statement; " + id.str());
		return;
	}
	W.any_fault = true;
	if (f.type == 1)
	{
		std::string what;
		std::string prop = falsify(W, ps, st, f.a, f.b, what);
		if (prop.empty()) return;
		bool outsider = (ps.kind == K_DECRYPT && (f.a % 2) == 0);
		W.res.cnt[std::string("fault.false_statement_") + kind_name(ps.kind)]++;
		// arguments: in half of the sessions (always for the statements with a component outside the group) the
		// prover works on the false statement as well
		const Statement *pst = NULL;
		if ((ps.kind == K_GROTH || ps.kind == K_HOOGH) && st.sin.size() == st.sout.size() && st.sin.size() == W.mixes[ps.idx % W.mixes.size()].in.size() && (((f.b >> 12) & 1) || what.find("outside the group") != std::string::npos))
		{ pst = &st; W.res.cnt["fault.prover_commits_to_false_statement"]++; }
		Outcome o = run_session(W, ps.prover, ps.verifier, prover_role(W, ps, outsider, pst), verifier_role(W, ps, &st), RelayFn(), chunked);
		if (ps.kind == K_CUT)
		{
			// soundness error exactly 2^-kappa: the honest prover code answers round i correctly iff the
			// challenge bit is 1; the verifier's coins are on the wire
			// (the prover commits to re-mixes of ITS output stack: if the verifier's output stack was edited,
			// the rounds with bit 0 - glued secret from the unchanged input stack - still fit and the rounds
			// with bit 1 do not; if the verifier's input stack was edited it is the other way round)
			std::vector<int> bits = challenge_bits(o);
			int good_bit = ((f.a % 9) == 4) ? 1 : 0;
			bool all_good = (bits.size() == W.kappa);
			if ((f.a % 9) >= 7) all_good = false; // a component outside the group is refused before the first round
			for (size_t i = 0; i < bits.size(); i++) if (bits[i] != good_bit) all_good = false;
			if (st.sin.size() != st.sout.size()) all_good = false; // refused before the first round
			if ((o.vret == 1) != all_good)
				W.violate(prop, "cutnchoose_not_exact", "false statement (" + what + ") " + (o.vret == 1 ? "accepted" : "rejected") +
					" although " + (all_good ? "every" : "not every") + " challenge bit was " + std::to_string(good_bit) + " (" + std::to_string(bits.size()) + " rounds); " + id.str());
			W.res.cnt["probe.cutnchoose_exact_checked"]++;
		}
		else if (o.vret == 1)
			W.violate(prop, std::string(prop == "C04" ? "false_statement_accepted_" : "public_input_not_bound_") + kind_name(ps.kind), what + "; " + id.str());
		return;
	}
	if (f.type == 3)
	{
		// guessing prover for cut-and-choose with forced verifier coins (exactly one string accepted)
		if (ps.kind != K_CUT || W.kappa == 0 || W.kappa > 16) return;
		const MixRec &r = W.mixes[ps.idx % W.mixes.size()];
		size_t n = r.in.size();
		uint64_t guess = (uint64_t)f.a & ((1ULL << W.kappa) - 1), coins = (uint64_t)f.b & ((1ULL << W.kappa) - 1);
		if (f.c % 2 == 0) coins = guess;
		// false statement: the output stack is a shuffle of another stack (types shifted by one)
		TMCG_Stack<VTMF_Card> other, fake; TMCG_StackSecret<VTMF_CardSecret> fs;
		Player &pp = W.P[ps.prover];
		W.S.single_party = (int)ps.prover;
		for (size_t i = 0; i < n; i++) { VTMF_Card c; pp.tmcg->TMCG_CreateOpenCard(c, pp.vtmf.get(), (i + 1) % W.maxtype); other.push(c); }
		pp.tmcg->TMCG_CreateStackSecret(fs, r.cyclic, n, pp.vtmf.get());
		pp.tmcg->TMCG_MixStack(other, fake, fs, pp.vtmf.get());
		st.sout = fake;
		bool cyc = r.cyclic; size_t kappa = W.kappa;
		RoleFn guesser = [&W, &pp, &r, &fake, guess, cyc, kappa, n](std::istream &in, std::ostream &out) -> bool
		{
			unsigned long want = 0; in >> want; in.ignore(1, '\n');
			Z foo;
			for (unsigned long i = 0; i < want && i < kappa; i++)
			{
				TMCG_Stack<VTMF_Card> s3; TMCG_StackSecret<VTMF_CardSecret> ss2;
				pp.tmcg->TMCG_CreateStackSecret(ss2, cyc, n, pp.vtmf.get());
				if ((guess >> i) & 1) pp.tmcg->TMCG_MixStack(fake, s3, ss2, pp.vtmf.get());
				else pp.tmcg->TMCG_MixStack(r.in, s3, ss2, pp.vtmf.get());
				if (TMCG_HASH_COMMITMENT) { std::ostringstream ost; ost << s3 << std::endl; tmcg_mpz_shash(foo, ost.str()); out << foo << std::endl; }
				else out << s3 << std::endl;
				in >> foo;
				out << ss2 << std::endl;
			}
			return true;
		};
		W.S.coin_party = (int)ps.verifier; W.S.coin_bytes.clear();
		for (size_t i = 0; i < W.kappa; i++) W.S.coin_bytes.push_back((unsigned char)((coins >> i) & 1));
		W.res.cnt["fault.forced_coins"]++;
		Outcome o = run_session(W, ps.prover, ps.verifier, guesser, verifier_role(W, ps, &st), RelayFn(), chunked);
		W.S.coin_party = -1; W.S.coin_bytes.clear();
		std::vector<int> bits = challenge_bits(o);
		uint64_t seen = 0; for (size_t i = 0; i < bits.size(); i++) if (bits[i]) seen |= (1ULL << i);
		if (bits.size() == W.kappa && seen != coins) { W.res.cnt["probe.coin_seam_mismatch"]++; return; }
		bool expect = (bits.size() == W.kappa && seen == guess);
		if ((o.vret == 1) != expect)
			W.violate("C04", "cutnchoose_guess_not_exact", std::string("prover prepared for challenge string ") + std::to_string(guess) + ", verifier drew " +
				std::to_string(seen) + ": " + (o.vret == 1 ? "accepted" : "rejected") + "; " + id.str());
		W.res.cnt["probe.cutnchoose_guess_checked"]++;
		return;
	}
	// ---- transcript faults: first a clean run from the same coins to learn the positions
	Outcome clean = run_session(W, ps.prover, ps.verifier, prover_role(W, ps, false), verifier_role(W, ps, &st), RelayFn(), chunked);
	if (clean.vret != 1)
	{
		W.violate("C03", std::string("honest_proof_rejected_") + kind_name(ps.kind), "verifier returned " + std::to_string(clean.vret) + " on an honest proof; " + id.str());
		return;
	}
	// assertable positions: all prover->verifier lines; verifier->prover lines except the announcement
	// of the security level that opens the cut-and-choose proof
	std::vector<std::pair<int, size_t> > pos;
	size_t nd[2] = { 0, 0 };
	for (size_t i = 0; i < clean.tr.size(); i++)
	{
		int d = clean.tr[i].dir; size_t idx = nd[d]++;
		if (d == 1 && ps.kind == K_CUT && idx == 0) continue;
		pos.push_back(std::make_pair(d, idx));
	}
	if (pos.empty()) return;
	std::pair<int, size_t> target = pos[(size_t)f.a % pos.size()];
	int mk = (int)(f.b % 7); // 0 +1, 1 zero, 2 swap with next line, 3 structured token, 4 out of range, 5 minus q, 6 duplicate index
	if (mk == 5) mk = 6;       // (5 is used internally for value+p)
	else if (mk == 6) mk = 12;
	if (mk == 6)
	{
		// the negative representative value-q on a prover->verifier line: never a value the protocol sends
		std::vector<std::pair<int, size_t> > p0;
		for (size_t i = 0; i < pos.size(); i++) if (pos[i].first == 0) p0.push_back(pos[i]);
		if (p0.empty()) mk = 0; else target = p0[(size_t)f.a % p0.size()];
	}
	if (mk == 4)
	{
		// value+q on the response of the equality-of-logarithms proofs and value+p on the transmitted
		// group elements of the decryption proof: positions where the verifier code states the range
		std::vector<std::pair<int, size_t> > p0;
		for (size_t i = 0; i < pos.size(); i++) if (pos[i].first == 0) p0.push_back(pos[i]);
		// Everywhere else: value+q or value+p on any numeric prover->verifier line.  An exponent plus q is out of
		// range, an exponent plus p is another residue (p = kq+1), a group element plus p is out of range and a
		// group element plus q is another element: all four must be refused at every position.
		bool special = (ps.kind == K_VMASK || ps.kind == K_REMASK || ps.kind == K_DECRYPT) && ((f.c >> 8) & 1) == 0;
		if (p0.empty()) mk = 0;
		else if (!special) { target = p0[(size_t)f.a % p0.size()]; mk = ((f.c >> 9) & 1) ? 5 : 4; }
		else if (ps.kind == K_DECRYPT && (f.c % 3) != 0 && p0.size() >= 3) { target = p0[(size_t)(f.c % 3) - 1]; mk = 5; }
		else target = p0.back();
	}
	if (f.type == 5)
	{
		// truncation (the sender goes away in the middle of a line): only prover->verifier lines are
		// asserted - a prover that loses a challenge may still guess it
		mk = 10;
		std::vector<std::pair<int, size_t> > p0;
		for (size_t i = 0; i < pos.size(); i++) if (pos[i].first == 0) p0.push_back(pos[i]);
		if (p0.empty()) return;
		target = p0[(size_t)f.a % p0.size()];
	}
	if (f.type == 6) mk = 11; // resized stack secret
	bool fired = false; std::string pending; bool have_pending = false; bool cut = false;
	RelayFn relay = [&](int dir, size_t idx, const std::string &line, std::vector<std::string> &out)
	{
		if (cut && dir == target.first) return; // everything after the truncation point is lost
		if (dir == target.first && idx == target.second)
		{
			std::string m;
			if (mk == 10) { cut = true; fired = true; size_t keep = line.empty() ? 0 : (size_t)f.c % line.size(); if (keep) out.push_back(line.substr(0, keep)); return; }
			if (mk == 11) { if (resize_stacksecret(line, m)) { out.push_back(m); fired = true; return; } }
			else if (mk == 2) { pending = line; have_pending = true; return; }
			else if (mk == 6)
			{
				Z v; if (line.find_first_not_of("0123456789ABCDEFGHIJKLMNOPQRSTUVWXYZabcdefghijklmnopqrstuvwxyz") == std::string::npos &&
					mpz_set_str(v, line.c_str(), TMCG_MPZ_IO_BASE) == 0 && mpz_cmp(v, W.P[0].vtmf->q) < 0 && mpz_sgn((mpz_srcptr)v) > 0)
				{ mpz_sub(v, v, W.P[0].vtmf->q); out.push_back(v.io()); fired = true; return; }
			}
			else if (mk == 12)
			{
				TMCG_StackSecret<VTMF_CardSecret> ss;
				if (line.compare(0, 4, "sts^") == 0 && ss.import(line) && ss.size() >= 2)
				{
					size_t a = (size_t)f.c % ss.size(), b = (a + 1 + (size_t)(f.c >> 4) % (ss.size() - 1)) % ss.size();
					TMCG_StackSecret<VTMF_CardSecret> t;
					for (size_t i = 0; i < ss.size(); i++) t.push(i == a ? ss[b].first : ss[i].first, ss[i].second);
					std::ostringstream o; o << t; out.push_back(o.str()); fired = true; return;
				}
			}
			else if (mk == 4 || mk == 5)
			{
				Z v; if (line.find_first_not_of("0123456789ABCDEFGHIJKLMNOPQRSTUVWXYZabcdefghijklmnopqrstuvwxyz") == std::string::npos && mpz_set_str(v, line.c_str(), TMCG_MPZ_IO_BASE) == 0)
				{ mpz_add(v, v, mk == 4 ? W.P[0].vtmf->q : W.P[0].vtmf->p); out.push_back(v.io()); fired = true; return; }
			}
			else if (mk <= 1 && mutate_int_line(line, mk, m) && m != line) { out.push_back(m); fired = true; return; }
			else if (mutate_structured(line, (size_t)f.c, m)) { out.push_back(m); fired = true; return; }
		}
		if (have_pending && dir == target.first)
		{
			have_pending = false;
			if (line != pending) fired = true;
			out.push_back(line); out.push_back(pending); return;
		}
		out.push_back(line);
	};
	W.S.party[ps.prover] = snapP; W.S.party[ps.verifier] = snapV;
	Outcome o = run_session(W, ps.prover, ps.verifier, prover_role(W, ps, false), verifier_role(W, ps, &st), relay, chunked);
	if (!fired) return;
	W.res.cnt[mk == 10 ? "fault.mitm_trunc" : (mk == 11 ? "fault.mitm_resize_secret" : (mk == 2 ? "fault.mitm_swap" : (mk == 12 ? "fault.mitm_dup_index_secret" : (mk == 6 ? "fault.mitm_minus_q" : (mk >= 4 ? "fault.mitm_out_of_range" : "fault.mitm_mut")))))]++;
	if (mk == 6)
	{
		// negative representatives: the verifiers state |v| < q (mpz_cmpabs), so value-q is accepted at many
		// positions by design (also inside the non-interactive arguments); recorded, never asserted
		W.res.cnt[std::string("probe.minusq_") + (o.vret == 1 ? "accepted_" : "refused_") + kind_name(ps.kind) + "_v" + std::to_string(ps.variant)]++;
		return;
	}
	if (o.vret == 1)
	{
		std::ostringstream d; d << "line " << target.second << " of direction " << (target.first ? "verifier->prover" : "prover->verifier")
			<< " altered (mutation " << mk << ") and the verifier still accepted; " << id.str();
		W.violate("C05", std::string("mutated_transcript_accepted_") + kind_name(ps.kind), d.str());
	}
}

// ---- opening a card with the full protocol (non-interactive shares over a string stream) ----
static size_t open_card(World &W, const VTMF_Card &c, size_t r, int missing, bool &shares_ok, int64_t retry = -1)
{
	Player &pr = W.P[r];
	W.S.single_party = (int)r;
	pr.tmcg->TMCG_SelfCardSecret(c, pr.vtmf.get());
	shares_ok = true;
	size_t nth = 0;
	for (size_t j = 0; j < W.k; j++)
	{
		if (j == r || (int)j == missing) continue;
		std::stringstream wire;
		W.S.single_party = (int)j;
		W.P[j].tmcg->TMCG_ProveCardSecret(c, W.P[j].vtmf.get(), wire, wire);
		W.S.single_party = (int)r;
		if (retry >= 0 && (size_t)(retry & 7) % (W.k - 1) == nth)
		{
			// the share message of this player arrives damaged first (one line + 1) and is refused, then the
			// player sends it again: a refused message must leave the opening untouched
			std::vector<std::string> lines; { std::string l; std::istringstream is(wire.str()); while (std::getline(is, l)) lines.push_back(l); }
			if (!lines.empty())
			{
				size_t li = (size_t)(retry >> 3) % lines.size(); std::string m;
				if (mutate_int_line(lines[li], 0, m) && m != lines[li])
				{
					std::string txt; for (size_t q = 0; q < lines.size(); q++) txt += (q == li ? m : lines[q]) + "\n";
					std::stringstream bad(txt);
					bool acc = pr.tmcg->TMCG_VerifyCardSecret(c, pr.vtmf.get(), bad, bad);
					W.res.cnt["fault.share_damaged_then_resent"]++;
					if (acc) W.res.cnt["probe.damaged_share_accepted"]++; // judged by the transcript checks of C05, not here
				}
			}
		}
		nth++;
		if (!pr.tmcg->TMCG_VerifyCardSecret(c, pr.vtmf.get(), wire, wire)) shares_ok = false;
	}
	return pr.tmcg->TMCG_TypeOfCard(c, pr.vtmf.get());
}

} // namespace

// ------------------------------------------------------------------------------------------
static Plan cards_generate(uint64_t seed, const Tier &tier)
{
	Plan p; p.seed = seed; p.property = tier.property.empty() ? "C03" : tier.property;
	Rng g(derive(seed, 1));
	const std::string &prop = p.property;
	unsigned r = (unsigned)g.below(20);
	p.cfg["k"] = (r < 14) ? (int64_t)g.range(2, 4) : ((r < 19) ? 5 : 7);
	p.cfg["w"] = g.chance(1, 8) ? (int64_t)g.range(5, 7) : (int64_t)g.range(1, 4);
	if (g.chance(1, 16)) { p.cfg["w"] = (int64_t)g.range(8, TMCG_MAX_TYPEBITS); if (p.cfg["k"] > 3) p.cfg["k"] = 3; } // up to 1024 card types (few players then: the type table costs 2^w exponentiations per instance)
	p.cfg["kappa"] = g.chance(1, 10) ? 0 : (int64_t)g.range(1, (prop == "C04") ? 8 : 12);
	p.cfg["group"] = (int64_t)g.below(5);
	p.cfg["tap"] = g.chance(1, 2);
	p.cfg["ell"] = (int64_t)g.below(3);
	p.cfg["chunked"] = g.chance(1, 3);
	{ Rng gl(derive(seed, 79)); p.cfg["leaver"] = gl.chance(1, 4) ? 1 : 0; } // a key holder joins and leaves before the game (own stream)
	{ Rng gm(derive(seed, 78)); p.cfg["minsz"] = gm.chance(1, 3) ? (int64_t)gm.below(1 << 24) : 0; } // importer minimum sizes per player (own stream)
	p.cfg["nmax"] = g.chance(1, 6) ? (int64_t)g.range(9, 20) : (int64_t)g.range(2, 8);
	int nops = (int)g.range(3, tier.thorough ? 14 : 9);
	bool faults = tier.opt.count("nofaults") == 0;
	if (g.chance(1, tier.thorough ? 60 : 150) && (p.property == "C03" || p.property == "C02" || p.property == "C12" || p.property == "C11"))
	{
		// a rare big-stack case: the commitment scheme uses precomputed tables for the first 256
		// generators only, so stacks around and above that size take another code path
		static const int big[] = { 255, 256, 257, 258, 300 };
		p.cfg["big"] = 1; p.cfg["nmax"] = 300; p.cfg["k"] = 2; p.cfg["w"] = (int64_t)g.range(1, 3); p.cfg["group"] = 0; p.cfg["ell"] = 1;
		p.ops.push_back(Op("stack", big[g.below(5)], (int64_t)g.below(1 << 20)));
		p.ops.push_back(Op("mix", (int64_t)g.below(2), 0, 0, 0));
		Op op("prove"); op.a.push_back(K_GROTH); op.a.push_back((int64_t)g.below(3)); op.a.push_back(0); op.a.push_back(1); op.a.push_back(0);
		op.a.push_back(0); op.a.push_back(0); op.a.push_back(0); op.a.push_back(0);
		p.ops.push_back(op);
		p.ops.push_back(Op("openstack", (int64_t)g.below(2), 0));
		return p;
	}
	int64_t k = p.cfg["k"];
	// a short set-up phase so that every proof kind has something to talk about
	for (int i = (int)g.range(1, 2); i > 0; i--) p.ops.push_back(Op("card", (int64_t)g.below(1 << 10)));
	for (int i = (int)g.range(0, 2); i > 0; i--) p.ops.push_back(Op("mask", (int64_t)g.below(k), (int64_t)g.below(64)));
	if (g.chance(1, 2)) p.ops.push_back(Op("vmask", (int64_t)g.below(k), (int64_t)g.below(1 << 10)));
	{
		unsigned r2 = (unsigned)g.below(20);
		int64_t n = (r2 < 12) ? (int64_t)g.range(2, 6) : ((r2 < 17) ? (int64_t)g.range(7, 12) : ((r2 < 19) ? 1 : (int64_t)g.range(13, 24)));
		p.ops.push_back(Op("stack", n, (int64_t)g.below(1 << 20)));
	}
	for (int i = (int)g.range(1, 3); i > 0; i--)
		p.ops.push_back(Op("mix", (int64_t)g.below(k), (int64_t)g.below(16), g.chance(2, 5) ? 1 : 0, g.chance(1, 12) ? 1 : 0));
	for (int i = 0; i < nops; i++)
	{
		unsigned c = (unsigned)g.below(100);
		if (c < 12) p.ops.push_back(Op("card", (int64_t)g.below(1 << 10)));
		else if (c < 24) p.ops.push_back(Op("mask", (int64_t)g.below(k), (int64_t)g.below(64)));
		else if (c < 30) p.ops.push_back(Op("vmask", (int64_t)g.below(k), (int64_t)g.below(1 << 10)));
		else if (c < 40) { Op o("open", (int64_t)g.below(k), (int64_t)g.below(64), g.chance(1, 3) ? (int64_t)g.below(k) : -1); o.a.push_back((faults && g.chance(1, 3)) ? (int64_t)g.below(1 << 10) : -1); p.ops.push_back(o); }
		else if (c < 48) p.ops.push_back(Op("stack", (int64_t)g.range(1, 10), (int64_t)g.below(1 << 20)));
		else if (c < 62) p.ops.push_back(Op("mix", (int64_t)g.below(k), (int64_t)g.below(16), g.chance(2, 5) ? 1 : 0, g.chance(1, 12) ? 1 : 0));
		else if (c < 68) p.ops.push_back(Op("openstack", (int64_t)g.below(k), (int64_t)g.below(16)));
		else
		{
			Op op("prove");
			op.a.push_back((int64_t)g.below(K_NUM));   // kind
			op.a.push_back((int64_t)g.below(3));       // variant
			op.a.push_back((int64_t)g.below(k));       // prover (key share, decryption)
			op.a.push_back((int64_t)g.below(k));       // verifier
			op.a.push_back((int64_t)g.below(64));      // record index
			int ft = 0;
			if (faults)
			{
				unsigned q = (unsigned)g.below(100);
				if (prop == "C03") ft = 0;
				else if (prop == "C04") ft = (q < 55) ? 1 : ((q < 85) ? 3 : 0);
				else if (prop == "C05") ft = (q < 25) ? 1 : ((q < 90) ? 2 : 0);
				else if (prop == "C12") ft = (q < 35) ? 5 : ((q < 60) ? 6 : ((q < 85) ? 2 : 1));
				else ft = (q < 20) ? 1 : ((q < 40) ? 2 : 0);
				if (ft == 3) op.a[0] = K_CUT;
				if (ft == 6) op.a[0] = K_CUT;
			}
			op.a.push_back(ft);
			op.a.push_back((int64_t)g.below(1 << 16)); // fault a
			op.a.push_back((int64_t)g.below(1 << 16)); // fault b
			op.a.push_back((int64_t)g.below(1 << 16)); // fault c
			p.ops.push_back(op);
		}
	}
	return p;
}

static RunResult cards_execute(const Plan &plan)
{
	World W(plan);
	W.G = &g_groups[(size_t)plan.get("group", 0) % g_groups.size()];
	W.k = (size_t)std::max<int64_t>(2, std::min<int64_t>(8, plan.get("k", 2)));
	W.w = (size_t)std::max<int64_t>(1, std::min<int64_t>(TMCG_MAX_TYPEBITS, plan.get("w", 2)));
	W.kappa = (size_t)std::max<int64_t>(0, std::min<int64_t>(TMCG_MAX_ZNP_ITERATIONS, plan.get("kappa", 4)));
	W.maxtype = (size_t)1 << W.w;
	W.tap = plan.get("tap", 1) != 0;
	W.nmax = (size_t)std::max<int64_t>(2, std::min<int64_t>(plan.get("big", 0) ? 320 : 32, plan.get("nmax", 8)));
	static const unsigned long ells160[] = { 16, 32, 48 }, ells200[] = { 24, 48, 64 };
	W.ell_e = (W.G->ss >= 200 ? ells200 : ells160)[(size_t)plan.get("ell", 0) % 3];
	bool chunked = plan.get("chunked", 0) != 0;
	// ---- table set-up: every player builds its own instances from the published group
	W.P.resize(W.k);
	for (size_t i = 0; i < W.k; i++)
	{
		W.S.single_party = (int)i;
		std::istringstream gin(W.G->text);
		// the sizes an importer passes are minimum sizes: a player may run with smaller minima than the group
		// was generated with (e.g. a 3072-bit group read by an instance with the default 2048-bit minimum)
		unsigned msz = (unsigned)((plan.get("minsz", 0) >> (3 * i)) & 7);
		unsigned long fs_i = W.G->fs - 64UL * (msz & 3), ss_i = W.G->ss - ((W.G->kind != 2 && (msz & 4)) ? 16UL : 0UL);
		if (msz) W.res.cnt["probe.group_imported_with_smaller_minimum"]++;
		if (W.G->kind == 2) W.P[i].vtmf.reset(new BarnettSmartVTMF_dlog_GroupQR(gin, fs_i, ss_i));
		else W.P[i].vtmf.reset(new BarnettSmartVTMF_dlog(gin, fs_i, ss_i, W.G->kind == 1));
		{
			if (!W.P[i].vtmf->CheckGroup()) { W.violate(msz ? "C11" : "C03", msz ? "roundtrip_group_check" : "group_rejected", "published pool group refused by CheckGroup of player " + std::to_string(i) + " (minimum sizes " + std::to_string(fs_i) + "/" + std::to_string(ss_i) + ")"); return W.res; }
			// C11 wire monitor for the group
			std::ostringstream o2; W.P[i].vtmf->PublishGroup(o2);
			if (o2.str() != W.G->text) { W.violate("C11", "roundtrip_text_group", "PublishGroup after the stream constructor (minimum sizes " + std::to_string(fs_i) + "/" + std::to_string(ss_i) + ") differs from the published text"); return W.res; }
		}
		W.P[i].vtmf->KeyGenerationProtocol_GenerateKey();
		W.P[i].tmcg.reset(new SchindelhauerTMCG(W.kappa, W.k, W.w));
	}
	{
		W.S.single_party = 9;
		std::istringstream gin(W.G->text);
		if (W.G->kind == 2) W.outsider.reset(new BarnettSmartVTMF_dlog_GroupQR(gin, W.G->fs, W.G->ss));
		else W.outsider.reset(new BarnettSmartVTMF_dlog(gin, W.G->fs, W.G->ss, W.G->kind == 1));
		W.outsider->KeyGenerationProtocol_GenerateKey();
	}
	for (size_t i = 0; i < W.k && W.res.ok(); i++)
	{
		std::ostringstream key; W.S.single_party = (int)i; W.P[i].vtmf->KeyGenerationProtocol_PublishKey(key);
		for (size_t j = 0; j < W.k; j++)
		{
			if (j == i) continue;
			std::istringstream kin(key.str()); W.S.single_party = (int)j;
			if (!W.P[j].vtmf->KeyGenerationProtocol_UpdateKey(kin)) { W.violate("C03", "honest_key_refused", "UpdateKey refused an honestly published key"); break; }
		}
	}
	if (plan.get("leaver", 0) && W.res.ok())
	{
		// a further key holder joins the table and leaves again before the game starts: every player folds its
		// key in (UpdateKey) and out again (RemoveKey); the game is then played under the key of the k players
		std::ostringstream key; W.S.single_party = 9; W.outsider->KeyGenerationProtocol_PublishKey(key);
		for (size_t j = 0; j < W.k && W.res.ok(); j++)
		{
			std::istringstream kin(key.str()); W.S.single_party = (int)j;
			if (!W.P[j].vtmf->KeyGenerationProtocol_UpdateKey(kin)) { W.violate("C03", "honest_key_refused", "UpdateKey refused the honestly published key of a joining key holder"); break; }
		}
		for (size_t j = 0; j < W.k && W.res.ok(); j++)
		{
			std::istringstream kin(key.str()); W.S.single_party = (int)j;
			if (!W.P[j].vtmf->KeyGenerationProtocol_RemoveKey(kin)) { W.violate("C08", "remove_refused", "RemoveKey refused the stored key of a leaving key holder"); break; }
		}
		W.res.cnt["probe.key_holder_joined_and_left"]++;
	}
	if (W.res.ok())
	{
		// the common key is the product of the players' shares (C08)
		Z prod(1);
		for (size_t i = 0; i < W.k; i++) { mpz_mul(prod, prod, W.P[i].vtmf->h_i); mpz_mod(prod, prod, W.P[0].vtmf->p); }
		for (size_t i = 0; i < W.k && W.res.ok(); i++)
			if (mpz_cmp(prod, W.P[i].vtmf->h)) W.violate("C08", "common_key_not_product", "the common key of player " + std::to_string(i) + " is not the product of the players' key shares" + (plan.get("leaver", 0) ? " (after a key holder joined and left)" : ""));
	}
	for (size_t i = 0; i < W.k; i++) { W.S.single_party = (int)i; W.P[i].vtmf->KeyGenerationProtocol_Finalize(); }
	{
		// the outsider completes its own (one-party) key so that it can compute decryption shares
		W.S.single_party = 9; W.outsider->KeyGenerationProtocol_Finalize();
	}
	for (size_t i = 1; i < W.k && W.res.ok(); i++)
		if (mpz_cmp(W.P[0].vtmf->h, W.P[i].vtmf->h)) W.violate("C08", "common_key_differs", "players derived different common keys");
	bool need_groth = false, need_hoogh = false;
	for (size_t i = 0; i < plan.ops.size(); i++)
		if (plan.ops[i].kind == "prove") { if (plan.ops[i].arg(0) % K_NUM == K_GROTH) need_groth = true; if (plan.ops[i].arg(0) % K_NUM == K_HOOGH) need_hoogh = true; }
	if (need_groth && W.res.ok())
	{
		W.S.single_party = 0;
		BarnettSmartVTMF_dlog *v0 = W.P[0].vtmf.get();
		W.P[0].vsshe.reset(new GrothVSSHE(W.nmax, v0->p, v0->q, v0->k, v0->g, v0->h, W.ell_e, W.G->fs, W.G->ss));
		if (!W.P[0].vsshe->CheckGroup()) { W.violate("C03", "vsshe_group_rejected", "freshly generated shuffle-argument parameters refused by CheckGroup"); }
		std::ostringstream o; W.P[0].vsshe->PublishGroup(o);
		for (size_t i = 1; i < W.k && W.res.ok(); i++)
		{
			W.S.single_party = (int)i; std::istringstream in(o.str());
			W.P[i].vsshe.reset(new GrothVSSHE(W.nmax, in, W.ell_e, W.G->fs, W.G->ss));
			if (!W.P[i].vsshe->CheckGroup()) W.violate("C03", "vsshe_group_rejected", "published shuffle-argument parameters refused by CheckGroup");
			std::ostringstream o2; W.P[i].vsshe->PublishGroup(o2);
			if (o2.str() != o.str()) W.violate("C11", "roundtrip_text_vsshe_group", "shuffle-argument parameters change under export/import");
		}
	}
	if (need_hoogh && W.res.ok())
		for (size_t i = 0; i < W.k; i++)
		{
			W.S.single_party = (int)i; BarnettSmartVTMF_dlog *v = W.P[i].vtmf.get();
			W.P[i].vrhe.reset(new HooghSchoenmakersSkoricVillegasVRHE(v->p, v->q, v->g, v->h, W.G->fs, W.G->ss));
			if (i == 0)
			{
				// C11: the published parameters of the rotation argument, of a commitment scheme and of the oblivious
				// transfer survive export -> stream constructor -> export
				std::ostringstream o1; W.P[0].vrhe->PublishGroup(o1); std::istringstream in(o1.str());
				HooghSchoenmakersSkoricVillegasVRHE r2(in, W.G->fs, W.G->ss); std::ostringstream o2; r2.PublishGroup(o2);
				if (o1.str() != o2.str() || !r2.CheckGroup()) W.violate("C11", "roundtrip_text_vrhe_group", "rotation-argument parameters change under export/import");
				// (sizes around 256: only the first 256 generators have precomputed tables)
				static const size_t bign[] = { 255, 256, 257, 300 };
				size_t cn = ((plan.seed >> 8) % 16 == 0) ? bign[(plan.seed >> 12) % 4] : 3 + (size_t)(plan.seed % 5);
				PedersenCommitmentScheme com(cn, v->p, v->q, v->k, v->h, W.G->fs, W.G->ss);
				std::ostringstream c1; com.PublishGroup(c1); std::istringstream cin2(c1.str());
				PedersenCommitmentScheme com2(cn, cin2, W.G->fs, W.G->ss); std::ostringstream c2; com2.PublishGroup(c2);
				if (c1.str() != c2.str() || !com2.CheckGroup() || com2.g.size() != cn) W.violate("C11", "roundtrip_text_com_group", "commitment parameters (" + std::to_string(cn) + " generators) change under export/import");
				else if (cin2.peek() != EOF && !(cin2 >> std::ws).eof()) W.violate("C11", "roundtrip_text_com_group", "import of commitment parameters (" + std::to_string(cn) + " generators) left text unread");
				if (cn > 250) W.res.cnt["probe.com_roundtrip_around_256"]++;
				NaorPinkasEOTP ot(v->p, v->q, v->g, W.G->fs, W.G->ss);
				std::ostringstream t1; ot.PublishGroup(t1); std::istringstream tin(t1.str());
				NaorPinkasEOTP ot2(tin, W.G->fs, W.G->ss); std::ostringstream t2; ot2.PublishGroup(t2);
				if (t1.str() != t2.str() || !ot2.CheckGroup()) W.violate("C11", "roundtrip_text_ot_group", "oblivious-transfer parameters change under export/import");
				W.res.cnt["probe.group_roundtrips"]++;
			}
		}
	// ---- the script
	for (size_t oi = 0; oi < plan.ops.size() && W.res.ok(); oi++)
	{
		const Op &op = plan.ops[oi];
		W.S.hist.add(H_OP, oi, op.arg(0), op.arg(1));
		if (op.kind == "card")
		{
			CardRec r; r.type = (size_t)op.arg(0) % W.maxtype;
			W.S.single_party = 0;
			W.P[0].tmcg->TMCG_CreateOpenCard(r.c, W.P[0].vtmf.get(), r.type);
			W.cards.push_back(r);
			roundtrip(W, r.c, "card");
		}
		else if (op.kind == "mask")
		{
			if (W.cards.empty()) continue;
			size_t j = (size_t)op.arg(0) % W.k; CardRec &cr = W.cards[(size_t)op.arg(1) % W.cards.size()];
			MaskRec m; m.in = cr.c; m.by = j; m.type = cr.type;
			W.S.single_party = (int)j;
			W.P[j].tmcg->TMCG_CreateCardSecret(m.cs, W.P[j].vtmf.get());
			W.P[j].tmcg->TMCG_MaskCard(m.in, m.out, m.cs, W.P[j].vtmf.get(), W.tap);
			cr.c = m.out; cr.masked++; // the table continues with the masked card
			W.masks.push_back(m);
			roundtrip(W, m.out, "card"); roundtrip(W, m.cs, "cardsecret");
			W.res.cnt["probe.maskings"]++;
		}
		else if (op.kind == "vmask")
		{
			size_t j = (size_t)op.arg(0) % W.k; VMaskRec r; r.by = j; r.type = (size_t)op.arg(1) % W.maxtype;
			W.S.single_party = (int)j;
			W.P[j].vtmf->IndexElement(r.m, r.type);
			W.P[j].vtmf->VerifiableMaskingProtocol_Mask(r.m, r.c1, r.c2, r.r);
			W.vmasks.push_back(r);
			CardRec cr; cr.type = r.type; cr.masked = 1; mpz_set(cr.c.c_1, r.c1); mpz_set(cr.c.c_2, r.c2); W.cards.push_back(cr);
		}
		else if (op.kind == "open")
		{
			if (W.cards.empty()) continue;
			size_t r = (size_t)op.arg(0) % W.k; const CardRec &cr = W.cards[(size_t)op.arg(1) % W.cards.size()];
			int missing = (int)op.arg(2);
			if (missing >= 0) { missing = missing % (int)W.k; if ((size_t)missing == r) missing = (int)((r + 1) % W.k); }
			bool ok = true;
			size_t t = open_card(W, cr.c, r, missing, ok, (op.a.size() > 3) ? op.arg(3) : -1);
			W.res.cnt[missing >= 0 ? "fault.missing_share" : "probe.cards_opened"]++;
			if (missing >= 0) W.any_fault = true;
			if (!ok) W.violate("C03", "honest_proof_rejected_decrypt", "a player's honest decryption share was refused while opening a card");
			else if (missing < 0 && t != cr.type)
				W.violate("C01", "wrong_type_opened", "card created with type " + std::to_string(cr.type) + " opens to " + std::to_string(t));
			else if (missing >= 0 && cr.masked > 0 && t != W.maxtype) // (an open card is public: c_1 = 1)
				W.violate("C01", "type_without_all_shares", "opening without the share of player " + std::to_string(missing) + " returned type " + std::to_string(t) + " instead of the invalid-type sentinel");
		}
		else if (op.kind == "stack")
		{
			StackRec s; size_t n = (size_t)std::max<int64_t>(1, std::min<int64_t>(plan.get("big", 0) ? 320 : 24, op.arg(0)));
			uint64_t bits = (uint64_t)op.arg(1);
			W.S.single_party = 0;
			for (size_t i = 0; i < n; i++)
			{
				size_t t = (size_t)((bits >> (3 * (i % 7))) + i * (bits & 3)) % W.maxtype;
				VTMF_Card c; W.P[0].tmcg->TMCG_CreateOpenCard(c, W.P[0].vtmf.get(), t);
				s.s.push(c); s.types.push_back(t);
			}
			W.stacks.push_back(s);
			roundtrip(W, s.s, "stack");
		}
		else if (op.kind == "mix")
		{
			if (W.stacks.empty()) continue;
			size_t j = (size_t)op.arg(0) % W.k; StackRec &sr = W.stacks[(size_t)op.arg(1) % W.stacks.size()];
			bool cyclic = op.arg(2) != 0 && sr.s.size() >= 2; bool lie = op.arg(3) != 0;
			MixRec m; m.in = sr.s; m.by = j; m.cyclic = cyclic; m.really_cyclic = cyclic && !lie;
			W.S.single_party = (int)j;
			// 'lie': a non-cyclic permutation that will be presented as a rotation (C04)
			m.offset = W.P[j].tmcg->TMCG_CreateStackSecret(m.ss, cyclic && !lie, sr.s.size(), W.P[j].vtmf.get());
			size_t n = sr.s.size();
			// the secret must contain a bijection (a shift by exactly the reported offset for rotations)
			std::vector<bool> seen(n, false); bool bij = (m.ss.size() == n);
			for (size_t i = 0; i < m.ss.size() && bij; i++) { if (m.ss[i].first >= n || seen[m.ss[i].first]) bij = false; else seen[m.ss[i].first] = true; }
			if (!bij) { W.violate("C02", "secret_not_bijective", "freshly generated stack secret is not a bijection"); break; }
			if (cyclic && !lie)
				for (size_t i = 0; i < n; i++)
					if (m.ss[(i + m.offset) % n].first != i)
					{ W.violate("C02", "rotation_offset_wrong", "rotation secret does not shift by the reported offset " + std::to_string(m.offset)); break; }
			if (!W.res.ok()) break;
			// the output object is sometimes one that was used before and still holds other (and more) cards
			if ((op.arg(1) + (int64_t)oi) % 3 == 0 && !W.stacks.empty()) { const StackRec &old = W.stacks[(size_t)(op.arg(1) + 1) % W.stacks.size()]; m.out = old.s; for (size_t q = 0; q < 2 && q < old.s.size(); q++) m.out.push(old.s[q]); W.res.cnt["probe.mix_into_used_stack"]++; }
			W.P[j].tmcg->TMCG_MixStack(m.in, m.out, m.ss, W.P[j].vtmf.get(), W.tap);
			if (m.out.size() != n) { W.violate("C02", "mix_changes_size", "mixed stack has another size (" + std::to_string(m.out.size()) + " instead of " + std::to_string(n) + ")"); break; }
			if (lie && cyclic)
			{
				// (judged on the ciphertexts: permuting identical cards - an open stack has them - can equal a
				// rotation although the index vector is not cyclic; then the statement is true)
				bool is_rot = true;
				for (size_t i = 1; i < n; i++) if (!(m.in[m.ss[i].first] == m.in[(m.ss[0].first + i) % n])) is_rot = false;
				// if the permuted stack happens to equal a rotated one the statement is true while the witness
				// is still no rotation witness: neither completeness nor soundness speaks about that - dropped
				if (!is_rot) { W.mixes.push_back(m); W.res.cnt["fault.noncyclic_as_rotation"]++; W.any_fault = true; }
				continue; // never adopted by the table
			}
			std::vector<size_t> nt(n);
			for (size_t i = 0; i < n; i++) nt[i] = sr.types[m.ss[i].first];
			sr.s = m.out; sr.types = nt;
			W.mixes.push_back(m);
			roundtrip(W, m.out, "stack"); roundtrip(W, m.ss, "stacksecret");
			W.res.cnt[cyclic ? "probe.rotations" : "probe.shuffles"]++;
			if (n >= 2)
			{
				// a received secret whose index component is no bijection must be refused on import
				TMCG_StackSecret<VTMF_CardSecret> bad;
				size_t a = (size_t)op.arg(1) % n, b = (a + 1 + (size_t)op.arg(0) % (n - 1)) % n;
				for (size_t i = 0; i < n; i++) bad.push(i == a ? m.ss[b].first : m.ss[i].first, m.ss[i].second);
				std::ostringstream o; o << bad;
				TMCG_StackSecret<VTMF_CardSecret> imp;
				W.res.cnt["fault.nonbijective_secret_import"]++;
				if (imp.import(o.str()))
					W.violate("C02", "import_accepts_non_bijection", "stack secret with a repeated index was accepted on import");
			}
		}
		else if (op.kind == "openstack")
		{
			if (W.stacks.empty()) continue;
			size_t r = (size_t)op.arg(0) % W.k; const StackRec &sr = W.stacks[(size_t)op.arg(1) % W.stacks.size()];
			for (size_t i = 0; i < sr.s.size() && W.res.ok(); i++)
			{
				bool ok = true; size_t t = open_card(W, sr.s[i], r, -1, ok);
				if (!ok) W.violate("C03", "honest_proof_rejected_decrypt", "a player's honest decryption share was refused while opening a stack");
				else if (t != sr.types[i])
					W.violate("C02", "mixed_stack_wrong_type", "position " + std::to_string(i) + " of a stack of " + std::to_string(sr.s.size()) +
						" cards opens to type " + std::to_string(t) + ", the reference model says " + std::to_string(sr.types[i]));
			}
			W.res.cnt["probe.stacks_opened"]++;
		}
		else if (op.kind == "prove")
		{
			ProofSpec ps; ps.kind = (int)(op.arg(0) % K_NUM); ps.variant = (int)op.arg(1);
			ps.prover = (size_t)op.arg(2) % W.k; ps.verifier = (size_t)op.arg(3) % W.k; ps.idx = (size_t)op.arg(4);
			if (ps.kind == K_KEY) ps.variant %= 2;
			else if (ps.kind == K_GROTH) ps.variant %= 3;
			else if (ps.kind == K_HOOGH) ps.variant %= 2;
			else ps.variant = 0;
			Fault f; f.type = (int)op.arg(5); f.a = op.arg(6); f.b = op.arg(7); f.c = op.arg(8);
			do_proof(W, ps, f, chunked);
		}
	}
	W.res.fingerprint = W.S.hist.h; W.res.steps = W.S.steps; W.res.sim_ms = W.S.now_ms;
	W.res.nontrivial = true;
	return W.res;
}

static void cards_shrink_more(const Plan &plan, std::vector<Plan> &out)
{
	if (plan.get("k", 2) > 2) { Plan q = plan; q.cfg["k"] = plan.get("k", 2) - 1; out.push_back(q); }
	if (plan.get("chunked", 0)) { Plan q = plan; q.cfg["chunked"] = 0; out.push_back(q); }
	if (plan.get("minsz", 0)) { Plan q = plan; q.cfg["minsz"] = 0; out.push_back(q); }
	if (plan.get("leaver", 0)) { Plan q = plan; q.cfg["leaver"] = 0; out.push_back(q); }
	if (plan.get("kappa", 0) > 1) { Plan q = plan; q.cfg["kappa"] = plan.get("kappa", 0) / 2; out.push_back(q); }
	if (plan.get("w", 1) > 1) { Plan q = plan; q.cfg["w"] = plan.get("w", 1) - 1; out.push_back(q); }
	if (plan.get("group", 0) != 0) { Plan q = plan; q.cfg["group"] = 0; out.push_back(q); }
	for (size_t i = 0; i < plan.ops.size(); i++)
		if (plan.ops[i].kind == "stack" && plan.ops[i].arg(0) > 2) { Plan q = plan; q.ops[i].a[0] = plan.ops[i].arg(0) / 2 + 1; out.push_back(q); break; }
}

int main(int argc, char **argv)
{
	Scenario sc;
	sc.name = "cards";
	sc.real_components = "src/SchindelhauerTMCG.cc (VTMF card/stack operations and all stack-equality proof wrappers), BarnettSmartVTMF_dlog.cc, BarnettSmartVTMF_dlog_GroupQR.cc, GrothVSSHE.cc, HooghSchoenmakersSkoricVillegasVRHE.cc, PedersenCOM.cc, JareckiLysyanskayaASTC.cc (two-party coin flip inside the public-coin proofs), VTMF_Card/CardSecret, TMCG_Stack/StackSecret, mpz_spowm/shash/srandom";
	sc.stub_components = "stream pairs between prover and verifier (SimStreambuf, seeded fragmentation, relaying man in the middle); processes (two baton-scheduled tasks per session); entropy incl. forced verifier coins; a guessing cut-and-choose prover built by the harness from public library operations";
	sc.rule = "one case = a table (k players, w type bits, security level kappa, group from a pool: random g / canonical g / quadratic-residue group, timing protection on/off, challenge length) running a generated script of card creation, masking chains, verifiable masking, openings with all or one missing share, stacks, shuffles and rotations, openings of whole stacks against a reference model, and proof sessions of seven kinds in all their variants, each optionally with one fault: false statement / edited public input, one altered, swapped, truncated or re-sized transcript line replayed from the same coins, forced verifier coins against a guessing prover; distinct = history fingerprint over every transmitted line";
	sc.generate = cards_generate; sc.execute = cards_execute; sc.shrink_more = cards_shrink_more; sc.worker_init = cards_init;
	return runner_main(argc, argv, sc);
}
