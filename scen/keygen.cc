// Scenario keygen (C08): the common card key under every processing order of the contributions,
// interleaved removals and malformed contributions.  Real: BarnettSmartVTMF_dlog(_GroupQR) key
// generation protocol.  Event loop, no tasks: a contribution is one three-line message.
#include "common.hh"
#include <memory>
#include <set>
#include <algorithm>

using namespace sim;

namespace {

struct GroupText { std::string text; unsigned long fs, ss; int kind; };
static std::vector<GroupText> g_groups;

static void keygen_init(const Tier &)
{
	if (!g_groups.empty()) return;
	Sim S(0x4e79001ULL, 2); S.single_party = 0; CerrCapture cap;
	{ BarnettSmartVTMF_dlog v(512, 160, false); std::ostringstream o; v.PublishGroup(o); GroupText g = { o.str(), 512, 160, 0 }; g_groups.push_back(g); }
	{ BarnettSmartVTMF_dlog v(768, 200, false); std::ostringstream o; v.PublishGroup(o); GroupText g = { o.str(), 768, 200, 0 }; g_groups.push_back(g); }
	{ BarnettSmartVTMF_dlog v(512, 160, true); std::ostringstream o; v.PublishGroup(o); GroupText g = { o.str(), 512, 160, 1 }; g_groups.push_back(g); }
	{ BarnettSmartVTMF_dlog_GroupQR v(384, 160); std::ostringstream o; v.PublishGroup(o); GroupText g = { o.str(), 384, 160, 2 }; g_groups.push_back(g); }
}

static std::vector<std::string> lines_of(const std::string &t)
{
	std::vector<std::string> v; std::istringstream in(t); std::string l;
	while (std::getline(in, l)) v.push_back(l);
	return v;
}

} // namespace

static Plan keygen_generate(uint64_t seed, const Tier &tier)
{
	Plan p; p.seed = seed; p.property = (tier.property == "C04") ? "C04" : "C08";
	Rng g(derive(seed, 1));
	int k = (int)g.range(2, g.chance(1, 6) ? 8 : 5);
	p.cfg["k"] = k; p.cfg["group"] = (int64_t)g.below(4);
	bool faults = tier.opt.count("nofaults") == 0;
	int nops = (int)g.range(k, 3 * k * k);
	for (int i = 0; i < nops; i++)
	{
		unsigned c = (unsigned)g.below(100);
		if (c < 60) p.ops.push_back(Op("deliver", (int64_t)g.below(k), (int64_t)g.below(k)));
		else if (c < 75) p.ops.push_back(Op("remove", (int64_t)g.below(k), (int64_t)g.below(k)));
		else if (faults) p.ops.push_back(Op("f_bad", (int64_t)g.below(k), (int64_t)g.below(k), (int64_t)g.below(3), (int64_t)g.below(8)));
		else p.ops.push_back(Op("deliver", (int64_t)g.below(k), (int64_t)g.below(k)));
	}
	// finish: everybody gets everything still missing, in a seeded order
	p.ops.push_back(Op("complete", (int64_t)g.below(1 << 20)));
	// rarely: one party's record is published once more and reaches everybody, its owner included, in a seeded order
	if (g.chance(1, 4)) p.ops.push_back(Op("dupall", (int64_t)g.below(k), (int64_t)g.below(1 << 20)));
	return p;
}

static void keygen_enumerate(const Tier &tier, std::vector<Plan> &out)
{
	// all k! processing orders at recipient 0 (k-1 foreign contributions), k <= 5 (quick: <= 4)
	int kmax = tier.thorough ? 6 : 5;
	for (int k = 2; k <= kmax; k++)
		for (int grp = 0; grp < 4; grp += (tier.thorough ? 1 : 3))
		{
			std::vector<int> perm; for (int i = 1; i < k; i++) perm.push_back(i);
			do
			{
				Plan p; p.seed = 1000 * k + grp; p.property = "C08"; p.cfg["k"] = k; p.cfg["group"] = grp; p.cfg["enumerated"] = 1;
				for (size_t i = 0; i < perm.size(); i++) p.ops.push_back(Op("deliver", perm[i], 0));
				// a removal and re-delivery in the middle of the order
				p.ops.push_back(Op("remove", perm[0], 0)); p.ops.push_back(Op("deliver", perm[0], 0));
				p.ops.push_back(Op("complete", 0));
				out.push_back(p);
			}
			while (std::next_permutation(perm.begin(), perm.end()));
		}
}

static RunResult keygen_execute(const Plan &plan)
{
	RunResult res;
	Sim S(plan.seed, 10);
	CerrCapture cap;
	const GroupText &G = g_groups[(size_t)plan.get("group", 0) % g_groups.size()];
	size_t k = (size_t)std::max<int64_t>(2, std::min<int64_t>(9, plan.get("k", 2)));
	std::vector<std::unique_ptr<BarnettSmartVTMF_dlog> > P(k);
	std::vector<std::string> contrib(k);
	std::vector<Z> hi(k);
	std::vector<std::set<size_t> > accepted(k);
	for (size_t i = 0; i < k; i++)
	{
		S.single_party = (int)i;
		std::istringstream gin(G.text);
		if (G.kind == 2) P[i].reset(new BarnettSmartVTMF_dlog_GroupQR(gin, G.fs, G.ss));
		else P[i].reset(new BarnettSmartVTMF_dlog(gin, G.fs, G.ss, G.kind == 1));
		P[i]->KeyGenerationProtocol_GenerateKey();
		std::ostringstream o; P[i]->KeyGenerationProtocol_PublishKey(o); contrib[i] = o.str();
		mpz_set(hi[i], P[i]->h_i);
	}
	auto violate = [&](const std::string &cls, const std::string &d)
	{
		std::ostringstream c; c << " [k=" << k << " group=" << G.fs << "/" << G.ss << " kind=" << G.kind << "]";
		res.violate("C08", cls, "keygen:" + cls, d + c.str());
	};
	auto model_h = [&](size_t d, Z &out)
	{
		mpz_set(out, hi[d]);
		for (std::set<size_t>::iterator it = accepted[d].begin(); it != accepted[d].end(); ++it)
		{ mpz_mul(out, out, hi[*it]); mpz_mod(out, out, P[d]->p); }
	};
	auto check_h = [&](size_t d, const std::string &after)
	{
		Z m; model_h(d, m);
		if (mpz_cmp(m, P[d]->h))
			violate("common_key_not_product", "party " + std::to_string(d) + ": h differs from the product of its own and the accepted keys after " + after);
	};
	auto deliver = [&](size_t s, size_t d)
	{
		if (s == d || accepted[d].count(s)) return; // duplicates are not injected (statement is silent)
		S.single_party = (int)d;
		std::istringstream in(contrib[s]);
		bool ok = P[d]->KeyGenerationProtocol_UpdateKey(in);
		S.hist.add(H_OP, 1, s * 16 + d, ok);
		res.cnt["probe.deliveries"]++;
		if (!ok) { violate("honest_contribution_refused", "party " + std::to_string(d) + " refused the honest contribution of " + std::to_string(s)); return; }
		accepted[d].insert(s);
		check_h(d, "accepting a contribution");
	};
	bool any_fault = false, dup_done = false;
	for (size_t oi = 0; oi < plan.ops.size() && res.ok(); oi++)
	{
		const Op &op = plan.ops[oi];
		size_t s = (size_t)op.arg(0) % k, d = (size_t)op.arg(1) % k;
		if (op.kind == "deliver") deliver(s, d);
		else if (op.kind == "remove")
		{
			if (s == d) continue;
			S.single_party = (int)d;
			Z before; mpz_set(before, P[d]->h);
			std::istringstream in(contrib[s]);
			bool ok = P[d]->KeyGenerationProtocol_RemoveKey(in);
			S.hist.add(H_OP, 2, s * 16 + d, ok);
			res.cnt["probe.removals"]++;
			if (accepted[d].count(s))
			{
				if (!ok) { violate("remove_refused", "removal of an accepted contribution failed"); break; }
				accepted[d].erase(s);
				check_h(d, "removing a contribution");
			}
			else
			{
				if (ok) violate("remove_unknown_accepted", "removal of a contribution that was never accepted returned true");
				else if (mpz_cmp(before, P[d]->h)) violate("key_changed_by_failed_remove", "a refused removal changed the common key");
			}
		}
		else if (op.kind == "f_bad")
		{
			if (s == d) continue;
			std::vector<std::string> L = lines_of(contrib[s]);
			if (L.size() != 3) continue;
			size_t field = (size_t)op.arg(2) % 3; int kind = (int)(op.arg(3) % 8);
			Z v; mpz_set_str(v, L[field].c_str(), TMCG_MPZ_IO_BASE);
			std::string what;
			switch (kind)
			{
				case 0: mpz_add_ui(v, v, 1); what = "+1"; break;
				case 1: if (!zcmp_ui(v, 0)) continue; mpz_set_ui(v, 0); what = "0"; break;
				case 2: L.resize(field); what = "missing"; break;                       // proof absent / message cut
				case 3: if (field != 0) continue; { Z t, e; do { tmcg_mpz_wrandomm(t, P[d]->p); mpz_powm(e, t, P[d]->q, P[d]->p); } while (!zcmp_ui(e, 1) || !zcmp_ui(t, 0)); v = t; } what = "non-member"; break;
				case 4: if (field != 0) continue; mpz_add(v, v, P[d]->p); what = "+p"; break;
				case 5: if (field != 2) continue; mpz_add(v, v, P[d]->q); what = "+q"; break;
				case 6: // the proof of another party attached to this key
					if (field == 0) continue; { std::vector<std::string> o2 = lines_of(contrib[(s + 1) % k]); if ((s + 1) % k == s || o2.size() != 3) continue; L[1] = o2[1]; L[2] = o2[2]; } what = "foreign proof"; break;
				case 7: // a key outside the subgroup (-g^x) with a proof of knowledge that verifies: c even
				{
					S.single_party = 9;
					BarnettSmartVTMF_dlog *V = P[d].get();
					Z x, y, vv, t, c, r;
					tmcg_mpz_srandomm(x, V->q); mpz_powm(y, V->g, x, V->p); mpz_sub(y, V->p, y);
					for (int tries = 0; tries < 64; tries++)
					{
						tmcg_mpz_srandomm(vv, V->q); mpz_powm(t, V->g, vv, V->p);
						tmcg_mpz_shash(c, 5, V->p, V->q, V->g, (mpz_srcptr)y, (mpz_srcptr)t);
						if (mpz_even_p((mpz_srcptr)c)) break;
					}
					mpz_mul(r, c, x); mpz_neg(r, r); mpz_add(r, r, vv); mpz_mod(r, r, V->q);
					L[0] = y.io(); L[1] = c.io(); L[2] = r.io(); what = "order-2q key with valid proof";
					break;
				}
			}
			if (kind != 2 && kind != 6 && kind != 7) L[field] = v.io();
			std::string text; for (size_t i = 0; i < L.size(); i++) text += L[i] + "\n";
			S.single_party = (int)d;
			Z before; mpz_set(before, P[d]->h);
			std::istringstream in(text);
			bool ok = false; std::string exc;
			try { ok = P[d]->KeyGenerationProtocol_UpdateKey(in); } catch (std::exception &e) { exc = e.what(); }
			any_fault = true;
			res.cnt[std::string("fault.contribution_") + what]++;
			S.hist.add(H_FAULT, s * 16 + d, field * 8 + kind, ok);
			if (ok && plan.property == "C04" && (kind == 6 || kind == 7 || field != 0))
			{
				// soundness of the key-share proof (C04): a key with a proof that does not fit it
				std::ostringstream c; c << " [k=" << k << " group=" << G.fs << "/" << G.ss << " kind=" << G.kind << (accepted[d].count(s) ? " key already stored at the recipient" : "") << "]";
				res.violate("C04", "keyshare_proof_not_fitting_accepted", "keygen:keyshare_proof_not_fitting_accepted", "key share of party " + std::to_string(s) + " with a non-fitting proof (" + what + ", field " + std::to_string(field) + ") was accepted by party " + std::to_string(d) + c.str());
			}
			else if (ok) violate("malformed_contribution_accepted", "contribution of party " + std::to_string(s) + " with field " + std::to_string(field) + " altered (" + what + ") was accepted by party " + std::to_string(d));
			else if (mpz_cmp(before, P[d]->h)) violate("key_changed_by_refused_contribution", "a refused contribution (" + what + ") changed the common key");
		}
		else if (op.kind == "dupall")
		{
			// The statement does not say whether a repeated contribution counts twice; whatever the answer, it has to be
			// the same at every party.  Only parties that hold everything (after "complete") take part; the repeated
			// record is delivered to each of them exactly once more, its owner included.
			bool full = true;
			for (size_t a = 0; a < k; a++) if (accepted[a].size() + 1 != k) full = false;
			if (!full) continue;
			std::vector<size_t> order; for (size_t a = 0; a < k; a++) order.push_back(a);
			Rng g(derive(plan.seed ^ (uint64_t)op.arg(1), 10));
			for (size_t a = 0; a + 1 < k; a++) std::swap(order[a], order[a + (size_t)g.below(k - a)]);
			std::vector<int> rets;
			for (size_t a = 0; a < k; a++)
			{
				size_t d2 = order[a]; S.single_party = (int)d2;
				std::istringstream in(contrib[s]);
				bool ok = false; try { ok = P[d2]->KeyGenerationProtocol_UpdateKey(in); } catch (std::exception &) {}
				rets.push_back(ok ? 1 : 0); S.hist.add(H_OP, 3, s * 16 + d2, ok);
			}
			res.cnt["fault.contribution_repeated_to_all"]++; any_fault = true; dup_done = true;
			for (size_t a = 1; a < k && res.ok(); a++)
				if (mpz_cmp(P[0]->h, P[a]->h))
					violate("common_key_differs_after_repeat", "after the record of party " + std::to_string(s) + " reached every party once more, parties 0 and " + std::to_string(a) + " hold different common keys");
		}
		else if (op.kind == "complete")
		{
			std::vector<std::pair<size_t, size_t> > todo;
			for (size_t a = 0; a < k; a++) for (size_t b = 0; b < k; b++) if (a != b && !accepted[b].count(a)) todo.push_back(std::make_pair(a, b));
			Rng g(derive(plan.seed ^ (uint64_t)op.arg(0), 9));
			while (!todo.empty() && res.ok())
			{
				size_t i = (size_t)g.below(todo.size());
				deliver(todo[i].first, todo[i].second);
				todo.erase(todo.begin() + i);
			}
		}
	}
	// parties that accepted the same set of contributions hold the same key
	for (size_t a = 0; a < k && res.ok(); a++)
		for (size_t b = a + 1; b < k; b++)
		{
			std::set<size_t> sa = accepted[a], sb = accepted[b]; sa.insert(a); sb.insert(b);
			if (!dup_done && sa == sb && mpz_cmp(P[a]->h, P[b]->h))
			{ violate("common_key_differs", "parties " + std::to_string(a) + " and " + std::to_string(b) + " accepted the same contributions but hold different keys"); break; }
		}
	if (res.ok())
		for (size_t a = 0; a < k; a++) { S.single_party = (int)a; P[a]->KeyGenerationProtocol_Finalize(); }
	res.fingerprint = S.hist.h; res.steps = plan.ops.size(); res.nontrivial = any_fault || plan.ops.size() > 2;
	return res;
}

int main(int argc, char **argv)
{
	Scenario sc;
	sc.name = "keygen";
	sc.real_components = "src/BarnettSmartVTMF_dlog.cc (GenerateKey, PublishKey, UpdateKey, RemoveKey, VerifyNIZK, Finalize), BarnettSmartVTMF_dlog_GroupQR.cc";
	sc.stub_components = "the broadcast of the three-line contributions (in-memory messages whose processing order per recipient the scheduler chooses); entropy";
	sc.rule = "enumerated: all (k-1)! processing orders of the foreign contributions at one recipient for k <= 5 (quick) / 6 (thorough) with a removal and re-delivery; seeded: k=2..8, group from a pool of four, random interleavings of deliver / remove (of accepted and of unknown contributions) / malformed contribution (field x {+1, 0, missing, non-member, +p, +q, foreign proof}) followed by completion in a seeded order, in a quarter of the runs followed by one party's record reaching every party (its owner included) once more, after which all parties must still agree; reference model = product of own and accepted keys computed by the harness; distinct = history fingerprint";
	sc.generate = keygen_generate; sc.execute = keygen_execute; sc.enumerate = keygen_enumerate; sc.worker_init = keygen_init;
	return runner_main(argc, argv, sc);
}
