// Scenario rbc (C14): reliable broadcast under arbitrary hand-over interleavings, Byzantine
// parties, partitions and channel-ID switches.  Real: CachinKursawePetzoldShoupSEABP.cc.
// Stub: SimUnicast in place of aiounicast_select.
#include <libTMCG.hh>
#include "runner.hh"
#include "simunicast.hh"
#include "stackunicast.hh"
// fraction of full-stack runs: one in 16; one in 96 in the sanitizer flavour, where a run with n*n real
// endpoints costs seconds (allocation and poisoning of their buffers)
#if defined(__SANITIZE_ADDRESS__)
#define FULLSTACK_ONE_IN 96
#else
#define FULLSTACK_ONE_IN 16
#endif
#include <stdexcept>
#include <algorithm>
#include <memory>

using namespace sim;

namespace {

struct ScriptStep
{
	enum Kind { ENTER, LEAVE, RECOVER, BCAST } kind;
	int name;        // ENTER/RECOVER: channel name index
	int fifo;        // ENTER/RECOVER: fifo flag of the channel; LEAVE: fifo flag of the parent
	int final_leave; // LEAVE
	int64_t senders; // BCAST: bit mask of senders
};

struct Bcast { size_t sender; std::string chan; size_t seq; };

struct PartyState
{
	bool byz;
	std::unique_ptr<aiounicast> aiou;
	std::unique_ptr<CachinKursawePetzoldShoupRBC> rbc;
	size_t sp;                                    // script pointer
	std::vector<int> path;                        // entered channel names
	std::vector<int> fifo_stack;                  // fifo flag per depth (index 0: root)
	std::map<std::string, std::vector<std::vector<std::string> > > delivered; // chan -> sender -> payloads
	std::map<std::string, std::vector<size_t> > sent_in;  // chan -> own broadcasts so far (count) [0]
	size_t from_rr;
	PartyState() : byz(false), sp(0), from_rr(0) {}
};

struct World
{
	const Plan &plan;
	Sim S;
	size_t n, t;
	int fifo_skip, dmode;
	std::vector<ScriptStep> script;
	std::unique_ptr<FdTable> fdt;                                    // (declared before P: the endpoints in P refer to them
	std::unique_ptr<Stack> stack;                                    //  until they are destroyed)
	std::vector<PartyState> P;
	std::unique_ptr<Net> net;
	bool fullstack;                                                  // real aiounicast_select over simulated descriptors
	RunResult res;
	std::map<std::string, Bcast> bcast_index;                       // honest payload -> origin
	std::map<std::string, std::map<size_t, size_t> > bcast_count;   // chan -> sender -> count so far
	std::map<std::string, std::string> byz_payload_tag;             // payload -> tag
	std::map<std::string, std::string> tag_delivered;               // tag -> payload delivered first
	std::vector<std::pair<size_t, Unit> > wirelog;                  // observed units (src)
	std::map<uint64_t, uint64_t> link_ctr;
	std::vector<int> byz_profile;                                    // per party
	bool in_drain;
	uint64_t actions;
	unsigned long uniq_ctr;
	uint64_t retrieve_sent;                                          // l-retrieve requests put on the wire
	uint64_t core_sent, core_recv;                                   // protocol messages proper (actions 1..5)
	std::vector<bool> desynced;                                      // a short tuple left this Byzantine party
	CerrCapture cap;

	World(const Plan &p) : plan(p), S(p.seed, 8), in_drain(false), actions(0), uniq_ctr(0), retrieve_sent(0), core_sent(0), core_recv(0) {}

	std::string chan_key(const std::vector<int> &path) const
	{
		std::ostringstream o; o << "/";
		for (size_t i = 0; i < path.size(); i++) o << path[i] << "/";
		return o.str();
	}
	bool chan_fifo(const PartyState &ps) const { return ps.fifo_stack.back() != 0; }

	void violate(const std::string &cls, const std::string &detail)
	{
		res.violate("C14", cls, "rbc:" + cls, detail);
	}
};

// delivery call used by party p in its current channel: 0 Deliver, 1 DeliverFrom.  In "mixed" runs the
// choice is a function of (party, channel): a caller that mixes both calls inside one channel
// splits one sender's values over two queues by design, which says nothing about C14.
static int chan_mode(World &W, size_t p)
{
	if (W.dmode != 2) return W.dmode;
	std::string k = W.chan_key(W.P[p].path);
	uint64_t h = 1469598103934665603ULL;
	for (size_t i = 0; i < k.size(); i++) { h ^= (unsigned char)k[i]; h *= 1099511628211ULL; }
	return (int)((derive(W.plan.seed ^ h, p) >> 7) & 1);
}

static std::string payload_for(size_t sender, size_t chanidx, size_t seq)
{
	mpz_t v; mpz_init_set_ui(v, 1); mpz_mul_2exp(v, v, 100);
	mpz_add_ui(v, v, (unsigned long)((sender + 1) << 40 | (chanidx & 0xffff) << 20 | (seq & 0xfffff)));
	std::string s = mpz2s(v); mpz_clear(v); return s;
}

// ---- the expected deliveries from honest senders in channel chan before script position 'upto'
static void expected_before(World &W, const std::string &chan, size_t upto, std::map<size_t, size_t> &cnt)
{
	std::vector<int> path;
	std::map<std::string, bool> dummy;
	for (size_t i = 0; i < upto && i < W.script.size(); i++)
	{
		const ScriptStep &s = W.script[i];
		if (s.kind == ScriptStep::ENTER || s.kind == ScriptStep::RECOVER) path.push_back(s.name);
		else if (s.kind == ScriptStep::LEAVE) { if (!path.empty()) path.pop_back(); }
		else if (s.kind == ScriptStep::BCAST)
		{
			if (W.chan_key(path) == chan)
				for (size_t p = 0; p < W.n; p++)
					if (((s.senders >> p) & 1) && !W.P[p].byz)
						cnt[p]++;
		}
	}
}

static bool has_all_expected(World &W, size_t p, const std::string &chan, size_t upto)
{
	std::map<size_t, size_t> cnt;
	expected_before(W, chan, upto, cnt);
	PartyState &ps = W.P[p];
	for (std::map<size_t, size_t>::iterator it = cnt.begin(); it != cnt.end(); ++it)
	{
		size_t have = 0;
		if (ps.delivered.count(chan) && ps.delivered[chan].size() > it->first)
			have = ps.delivered[chan][it->first].size();
		if (have < it->second)
			return false;
	}
	return true;
}

static void record_delivery(World &W, size_t p, size_t from, mpz_srcptr m, const char *how)
{
	PartyState &ps = W.P[p];
	if (ps.byz) return;
	std::string chan = W.chan_key(ps.path);
	std::string v = mpz2s(m);
	W.S.hist.add_str(H_RESULT, v);
	W.S.hist.add(H_RESULT, p, from);
	W.res.cnt[std::string("probe.delivered_") + how]++;
	if (from >= W.n) { W.violate("bad_sender_index", "delivery with sender index >= n"); return; }
	if (!ps.delivered.count(chan)) ps.delivered[chan].resize(W.n);
	std::vector<std::string> &dl = ps.delivered[chan][from];
	std::ostringstream where; where << "receiver=" << p << " sender=" << from << " chan=" << chan << " via=" << how
		<< " value=" << v;
	// a value that the harness can attribute to exactly one slot must not be delivered twice (payloads
	// of honest senders are unique by construction; those of a Byzantine sender only if they left
	// through the harness and its link was never de-synchronised by a short tuple)
	bool attributable = !W.P[from].byz || (W.byz_payload_tag.count(v) && !W.desynced[from]);
	if (attributable && std::find(dl.begin(), dl.end(), v) != dl.end())
	{
		W.violate("integrity_duplicate", "slot delivered twice: " + where.str());
		return;
	}
	if (!W.P[from].byz)
	{
		std::map<std::string, Bcast>::iterator it = W.bcast_index.find(v);
		if (it == W.bcast_index.end())
		{
			// maybe a payload the sender broadcast in a channel the harness table misses: never
			W.violate("integrity_forged", "value never broadcast by honest sender: " + where.str());
			return;
		}
		if (it->second.sender != from)
		{
			W.violate("integrity_wrong_sender", "value of sender " + std::to_string(it->second.sender) + ": " + where.str());
			return;
		}
		if (it->second.chan != chan)
		{
			W.violate("channel_cross", "value broadcast in " + it->second.chan + " delivered in another channel: " + where.str());
			return;
		}
		if (W.chan_fifo(ps) && W.fifo_skip == 0 && it->second.seq != dl.size())
		{
			W.violate("fifo_order", "expected seq " + std::to_string(dl.size()) + " got " +
				std::to_string(it->second.seq) + ": " + where.str());
			return;
		}
	}
	else
	{
		std::map<std::string, std::string>::iterator it = W.byz_payload_tag.find(v);
		if (it == W.byz_payload_tag.end() || W.desynced[from])
			W.res.cnt["probe.byz_unattributable_payload"]++;
		else
		{
			W.res.cnt["probe.byz_value_delivered"]++;
			std::map<std::string, std::string>::iterator jt = W.tag_delivered.find(it->second);
			if (jt == W.tag_delivered.end())
				W.tag_delivered[it->second] = v;
			else if (jt->second != v)
			{
				W.violate("agreement", "two values delivered for one (channel,sender,slot): " + jt->second +
					" and " + where.str());
				return;
			}
		}
		if (W.chan_fifo(ps) && W.fifo_skip == 0)
		{
			size_t idx = dl.size();
			for (size_t q = 0; q < W.n; q++)
			{
				if (q == p || W.P[q].byz || !W.P[q].delivered.count(chan)) continue;
				std::vector<std::string> &dq = W.P[q].delivered[chan][from];
				if (dq.size() > idx && dq[idx] != v)
				{
					W.violate("agreement", "FIFO slot " + std::to_string(idx) + " differs at party " +
						std::to_string(q) + " (" + dq[idx] + "): " + where.str());
					return;
				}
			}
		}
	}
	dl.push_back(v);
}

// ---- one party action
static bool try_script_step(World &W, size_t p)
{
	PartyState &ps = W.P[p];
	if (ps.sp >= W.script.size()) return false;
	const ScriptStep &s = W.script[ps.sp];
	W.S.single_party = (int)p;
	switch (s.kind)
	{
		case ScriptStep::ENTER:
		{
			std::ostringstream nm; nm << "chan" << s.name;
			ps.rbc->setID(nm.str(), s.fifo != 0);
			ps.path.push_back(s.name); ps.fifo_stack.push_back(s.fifo);
			break;
		}
		case ScriptStep::RECOVER:
		{
			std::ostringstream nm; nm << "chan" << s.name;
			ps.rbc->recoverID(nm.str(), s.fifo != 0);
			ps.path.push_back(s.name); ps.fifo_stack.push_back(s.fifo);
			W.res.cnt["probe.recoverID"]++;
			break;
		}
		case ScriptStep::LEAVE:
		{
			if (ps.path.empty()) break;
			if (s.final_leave && !ps.byz && !has_all_expected(W, p, W.chan_key(ps.path), ps.sp))
				return false; // wait for the broadcasts of the honest senders first
			ps.path.pop_back(); ps.fifo_stack.pop_back();
			ps.rbc->unsetID(ps.fifo_stack.back() != 0);
			break;
		}
		case ScriptStep::BCAST:
		{
			if ((s.senders >> p) & 1)
			{
				std::string chan = W.chan_key(ps.path);
				size_t seq = W.bcast_count[chan][p]++;
				// channel index for the payload: hash of the key
				size_t cidx = 0; for (size_t i = 0; i < chan.size(); i++) cidx = cidx * 31 + (unsigned char)chan[i];
				std::string pl = payload_for(p, cidx, seq + 100 * ps.sp);
				if (!ps.byz)
				{
					Bcast b; b.sender = p; b.chan = chan; b.seq = seq;
					W.bcast_index[pl] = b;
				}
				mpz_t m; mpz_init(m); s2mpz(m, pl);
				ps.rbc->Broadcast(m);
				mpz_clear(m);
				W.res.cnt["probe.broadcasts"]++;
			}
			break;
		}
	}
	ps.sp++;
	W.S.hist.add(H_OP, 1, p, ps.sp);
	return true;
}

// returns true if something observable happened (value delivered or a unit consumed / sent)
static bool deliver_attempt(World &W, size_t p, int mode, size_t from)
{
	PartyState &ps = W.P[p];
	W.S.single_party = (int)p;
	if (W.retrieve_sent > 3000) return false; // retrieve storm: every further call only feeds it
	size_t inbox_before = 0;
	for (size_t s = 0; s < W.n; s++) inbox_before += W.net->inbox[p][s].size();
	uint64_t sent_before = W.core_sent, recv_before = W.core_recv;
	mpz_t m; mpz_init(m);
	bool got = false; size_t who = W.n;
	W.actions++;
	try
	{
		// over the real byte layer a zero-time-out call reads the visible bytes of a link or parses one integer of
		// a tuple: one attempt is up to 14 such calls, i.e. about one protocol message, as over the stub
		int reps = W.fullstack ? 14 : 1;
		if (mode == 0)
		{
			for (int r = 0; r < reps && !got; r++)
				got = ps.rbc->Deliver(m, who, aiounicast::aio_scheduler_roundrobin, 0);
			if (got) record_delivery(W, p, who, m, "any");
		}
		else
		{
			from = from % W.n;
			for (int r = 0; r < reps && !got; r++)
				got = ps.rbc->DeliverFrom(m, from, aiounicast::aio_scheduler_roundrobin, 0);
			if (got) record_delivery(W, p, from, m, "from");
		}
	}
	catch (std::exception &e)
	{
		W.res.cnt["probe.deliver_exception"]++;
		W.S.hist.add_str(H_RESULT, e.what());
	}
	mpz_clear(m);
	size_t inbox_after = 0;
	for (size_t s = 0; s < W.n; s++) inbox_after += W.net->inbox[p][s].size();
	W.S.hist.add(H_OP, 2, p, (got ? 1 : 0) | (mode << 1));
	// progress = a value came out, a unit was consumed, or a protocol message proper was sent.  (A
	// retrieve storm, see the drain phase, is bounded separately.)
	(void)recv_before;
	return got || (inbox_after != inbox_before) || (W.core_sent != sent_before);
}

// every r-send leaving a Byzantine party carries a payload that the harness can attribute to exactly
// one (ID, sender, s) tag: if the payload is already known under another tag it is made unique first
static void register_byz_send(World &W, Unit &v)
{
	if (v.ints.size() != 5 || v.ints[3] != "1") return;
	std::string tag = v.ints[0] + "|" + v.ints[1] + "|" + v.ints[2];
	std::map<std::string, std::string>::iterator it = W.byz_payload_tag.find(v.ints[4]);
	while (it != W.byz_payload_tag.end() && it->second != tag)
	{
		mpz_t m, o; mpz_init(m); mpz_init_set_ui(o, ++W.uniq_ctr); mpz_mul_2exp(o, o, 70);
		s2mpz(m, v.ints[4]); mpz_add(m, m, o); v.ints[4] = mpz2s(m); mpz_clear(m); mpz_clear(o);
		it = W.byz_payload_tag.find(v.ints[4]);
	}
	W.byz_payload_tag[v.ints[4]] = tag;
}

// Byzantine outgoing filter
static void byz_filter_inner(World &W, size_t src, size_t dst, const Unit &u, std::vector<Unit> &out)
{
	if (!W.P[src].byz) { out.push_back(u); return; }
	uint64_t idx = W.link_ctr[src * 64 + dst]++;
	uint64_t h = derive(W.plan.seed ^ 0xB12ULL, (src * 64 + dst) * 100000 + idx);
	int prof = W.byz_profile[src];
	unsigned r = (unsigned)(h % 64); h /= 64;
	Unit v = u;
	bool is5 = (u.ints.size() == 5);
	std::string tag;
	if (is5) tag = u.ints[0] + "|" + u.ints[1] + "|" + u.ints[2];
	bool is_send = is5 && u.ints[3] == "1";
	// profile: 0 honest-looking, 1 equivocator, 2 lossy, 3 garbler, 4 silent
	if (prof == 4) { W.res.cnt["fault.byz_silent"]++; return; }
	if (prof == 1 && is_send)
	{
		// different payload per recipient
		mpz_t m; mpz_init(m); s2mpz(m, u.ints[4]); mpz_add_ui(m, m, (dst + 1) * 7919); v.ints[4] = mpz2s(m); mpz_clear(m);
		W.res.cnt["fault.byz_equivocate"]++;
		out.push_back(v); return;
	}
	if (prof == 2 && r < 20) { W.res.cnt["fault.byz_drop"]++; return; }
	if (prof == 3 && is5 && r < 24)
	{
		unsigned f = (unsigned)(h % 6); h /= 6;
		mpz_t m; mpz_init(m);
		switch (f)
		{
			case 0: s2mpz(m, u.ints[4]); mpz_add_ui(m, m, 1 + dst); v.ints[4] = mpz2s(m);
				W.res.cnt["fault.byz_mut_payload"]++; break;
			case 1: v.ints[1] = std::to_string((size_t)(h % W.n)); W.res.cnt["fault.byz_mut_sender"]++; break;
			case 2: s2mpz(m, u.ints[2]); mpz_add_ui(m, m, 1 + (h % 3)); v.ints[2] = mpz2s(m);
				W.res.cnt["fault.byz_mut_seq"]++; break;
			case 3: v.ints[3] = std::to_string((size_t)(h % 10)); W.res.cnt["fault.byz_mut_action"]++;
				break;
			case 4: out.push_back(u); W.res.cnt["fault.byz_dup"]++; break;
			case 5: v.ints.resize(1 + (h % 4)); W.res.cnt["fault.byz_truncate"]++; W.desynced[src] = true; break;
		}
		mpz_clear(m);
		out.push_back(v); return;
	}
	out.push_back(u);
}

static void byz_filter(World &W, size_t src, size_t dst, const Unit &u, std::vector<Unit> &out)
{
	byz_filter_inner(W, src, dst, u, out);
	if (W.P[src].byz)
		for (size_t i = 0; i < out.size(); i++)
			register_byz_send(W, out[i]);
}

static void inject(World &W, const Op &op)
{
	// f_inj z dst slot kind : a focused adversary.  The target tag is one of z's own broadcasts
	// (slot-th r-send seen from z) or, if z has not broadcast yet, any r-send seen on the wire.
	// kind%16 selects the message, (kind/16)%2 one of two payload variants R0/R1 derived from the
	// tag, (kind/32)%2 "flood": the message is sent n times to every party instead of once to dst.
	std::vector<size_t> byz;
	for (size_t i = 0; i < W.n; i++) if (W.P[i].byz) byz.push_back(i);
	if (byz.empty() || W.wirelog.empty()) return;
	size_t z = byz[(size_t)op.arg(0) % byz.size()];
	size_t dst = (size_t)op.arg(1) % W.n;
	std::vector<const Unit*> own, any;
	for (size_t i = 0; i < W.wirelog.size(); i++)
	{
		const Unit &w = W.wirelog[i].second;
		if (w.ints.size() != 5 || w.ints[3] != "1") continue;
		any.push_back(&w);
		if (W.wirelog[i].first == z) own.push_back(&w);
	}
	const Unit *tmp = NULL;
	if (!own.empty() && (op.arg(2) % 4) != 3) tmp = own[(size_t)(op.arg(2) / 4) % own.size()];
	else if (!any.empty()) tmp = any[(size_t)(op.arg(2) / 4) % any.size()];
	else return;
	Unit u = *tmp;
	int kind = (int)(op.arg(3) % 16);
	int variant = (int)((op.arg(3) / 16) % 2);
	bool flood = ((op.arg(3) / 32) % 2) == 1;
	std::string tag = u.ints[0] + "|" + u.ints[1] + "|" + u.ints[2];
	uint64_t h = 1469598103934665603ULL;
	for (size_t i = 0; i < tag.size(); i++) { h ^= (unsigned char)tag[i]; h *= 1099511628211ULL; }
	h = derive(W.plan.seed ^ h, 77 + variant);
	mpz_t rnd, dg; mpz_init(rnd); mpz_init(dg);
	mpz_set_ui(rnd, 1); mpz_mul_2exp(rnd, rnd, 90); mpz_add_ui(rnd, rnd, (unsigned long)(h & 0xffffffffffffULL));
	tmcg_mpz_shash(dg, 1, rnd);
	switch (kind)
	{
		case 0: break; // replay of the r-send as it was
		case 1: u.ints[3] = "1"; u.ints[4] = mpz2s(rnd); break;          // r-send with variant payload
		case 2: u.ints[3] = "2"; u.ints[4] = mpz2s(dg); break;           // r-echo for the variant digest
		case 3: u.ints[3] = "3"; u.ints[4] = mpz2s(dg); break;           // r-ready for the variant digest
		case 4: u.ints[3] = "5"; u.ints[4] = mpz2s(rnd); break;          // r-answer with the variant payload
		case 5: u.ints[3] = "4"; break;                                  // r-request
		case 6: u.ints[3] = "6"; u.ints[4] = "6"; break;                 // l-retrieve
		case 7: u.ints[3] = "7"; u.ints[4] = mpz2s(rnd); break;          // l-deliver with the variant payload
		case 8: u.ints[3] = "8"; u.ints[4] = "8"; break;                 // l-fail
		case 9: u.ints.resize(1 + (h % 4)); W.desynced[z] = true; break;  // short tuple: desynchronises the link
		case 10: u.ints[1] = (h & 1) ? "-1" : "ffffffffffffffffffffffff"; u.ints[2] = (h & 2) ? "0" : "-5"; break;
		case 11: u.ints[3] = (h & 1) ? "0" : "9"; break;                 // unknown action
		case 12: u.ints[3] = "5"; break;                                 // unsolicited r-answer with the original payload
		case 13: // r-ready for the digest of the original payload
		case 14: // r-echo for the digest of the original payload
			{ mpz_t m, d; mpz_init(m); mpz_init(d); s2mpz(m, u.ints[4]); tmcg_mpz_shash(d, 1, m);
			  u.ints[3] = (kind == 13) ? "3" : "2"; u.ints[4] = mpz2s(d); mpz_clear(m); mpz_clear(d); }
			break;
		case 15: // r-send of the variant payload under the next sequence number
			{ mpz_t m; mpz_init(m); s2mpz(m, u.ints[2]); mpz_add_ui(m, m, 1); u.ints[2] = mpz2s(m); mpz_clear(m);
			  u.ints[4] = mpz2s(rnd); }
			break;
	}
	mpz_clear(rnd); mpz_clear(dg);
	W.res.cnt[std::string("fault.byz_inject_") + std::to_string(kind)]++;
	if (flood) W.res.cnt["fault.byz_inject_flood"]++;
	register_byz_send(W, u);
	if (!flood)
		W.net->enqueue(z, dst, u);
	else
		for (size_t d = 0; d < W.n; d++)
			for (size_t k = 0; k < W.n; k++)
				W.net->enqueue(z, d, u);
}

static bool deliver_attempt(World &W, size_t p, int mode, size_t from);
static bool hand_nth(World &W, size_t a);

// hand over everything and let every party work off its inbox without touching the script; in
// DeliverFrom mode each party asks for one fixed sender, so that values of the other senders pile
// up in the per-sender buffers (the way the n-party protocols use the call)
static void flush(World &W, size_t a)
{
	for (int guard = 0; guard < 20000; guard++)
		if (!hand_nth(W, a * 7 + guard)) break;
	for (size_t p = 0; p < W.n && W.res.ok(); p++)
	{
		for (int guard = 0; guard < 400 && W.res.ok(); guard++)
		{
			size_t inb = 0;
			for (size_t s2 = 0; s2 < W.n; s2++) inb += W.net->inbox[p][s2].size();
			if (!inb) break;
			deliver_attempt(W, p, chan_mode(W, p), a + p);
		}
	}
	W.res.cnt["probe.flush_ops"]++;
}

static bool hand_nth(World &W, size_t a)
{
	std::vector<std::pair<size_t, size_t> > links;
	for (size_t s = 0; s < W.n; s++)
		for (size_t d = 0; d < W.n; d++)
			if (!W.net->flight[s][d].empty() && !W.net->cut[s][d])
				links.push_back(std::make_pair(s, d));
	if (links.empty()) return false;
	std::pair<size_t, size_t> l = links[a % links.size()];
	return W.net->hand(l.first, l.second);
}

static bool party_drain(World &W, size_t p)
{
	// A DeliverFrom() call with time-out 0 may move a value from the broadcast layer into its
	// per-sender buffer without returning it (invisible to the harness); it is returned by the next
	// full cycle.  Two consecutive silent cycles therefore mean that nothing at all happened.
	bool any = false;
	int silent = 0;
	for (int guard = 0; guard < 5000; guard++)
	{
		if (!W.res.ok()) return any;
		if (try_script_step(W, p)) { any = true; silent = 0; continue; }
		bool prog = false;
		int mode = chan_mode(W, p);
		if (mode == 0)
			prog = deliver_attempt(W, p, 0, 0);
		else
			for (size_t i = 0; i < W.n; i++)
				if (deliver_attempt(W, p, 1, i)) prog = true;
		if (prog) { any = true; silent = 0; }
		else if (++silent >= 3) break;
	}
	return any;
}

} // anonymous namespace

// ------------------------------------------------------------------ generate
static Plan rbc_generate(uint64_t seed, const Tier &tier)
{
	Plan p; p.seed = seed; p.property = "C14";
	Rng g(derive(seed, 1));
	static const int ns[] = { 2, 3, 4, 4, 4, 4, 5, 5, 6, 7, 7, 4 };
	int n = ns[g.below(12)];
	int tmax = (n - 1) / 3;
	int t = (int)g.range(0, tmax);
	if (tmax > 0 && g.chance(3, 4)) t = tmax;
	int b = (t > 0) ? (int)g.range(0, t) : 0;
	if (t > 0 && g.chance(1, 2)) b = t;
	p.cfg["n"] = n; p.cfg["t"] = t;
	int64_t byzmask = 0;
	for (int k = 0; k < b; k++)
	{
		int z; do { z = (int)g.below(n); } while ((byzmask >> z) & 1);
		byzmask |= (1 << z);
	}
	p.cfg["byzmask"] = byzmask;
	p.cfg["byzprof"] = (int64_t)g.below(5 * 5);   // profile per byz party (two digits base 5)
	p.cfg["fifo_skip"] = g.chance(1, 10) ? (int64_t)g.range(1, 3) : 0;
	p.cfg["dmode"] = (int64_t)g.below(3);       // 0 Deliver only, 1 DeliverFrom only, 2 mixed
	{
		// full stack (own stream): bit 0 on, bit 1 authenticated, bit 2 units handed over in two pieces
		Rng gs(derive(seed, 77)); int64_t fs = 0;
		if (tier.opt.count("fullstack") ? atoi(tier.opt.find("fullstack")->second.c_str()) != 0 : gs.chance(1, FULLSTACK_ONE_IN))
		{ fs = 1; if (gs.chance(1, 2)) fs |= 2; if (gs.chance(2, 3)) fs |= 4; }
		p.cfg["fullstack"] = fs;
	}
	bool faults = (tier.opt.count("nofaults") == 0) && !g.chance(1, 8);
	// ---- script
	int steps = (int)g.range(3, tier.thorough ? 16 : 12);
	std::vector<int> path; std::vector<int> fifos; fifos.push_back(1);
	std::map<std::string, std::vector<std::pair<int, int> > > left; // parent key -> (name, fifo) left non-finally
	int next_name = 1;
	auto key = [&](const std::vector<int> &pp){ std::ostringstream o; o << "/"; for (size_t i = 0; i < pp.size(); i++) o << pp[i] << "/"; return o.str(); };
	for (int s = 0; s < steps; s++)
	{
		unsigned c = (unsigned)g.below(10);
		if (c < 5)
		{
			int64_t m = 0;
			for (int i = 0; i < n; i++) if (g.chance(1, 2)) m |= (1 << i);
			if (!m) m = 1 << g.below(n);
			p.ops.push_back(Op("s_bcast", m));
		}
		else if (c < 7 && path.size() < 3)
		{
			int f = g.chance(3, 4) ? 1 : 0;
			p.ops.push_back(Op("s_enter", next_name, f));
			path.push_back(next_name++); fifos.push_back(f);
		}
		else if (c < 9 && !path.empty())
		{
			int fin = g.chance(2, 3) ? 1 : 0;
			int nm = path.back(), f = fifos.back();
			path.pop_back(); fifos.pop_back();
			p.ops.push_back(Op("s_leave", fin, fifos.back()));
			if (!fin) left[key(path)].push_back(std::make_pair(nm, f));
		}
		else if (!left[key(path)].empty() && path.size() < 3)
		{
			std::vector<std::pair<int, int> > &L = left[key(path)];
			size_t k = g.below(L.size());
			p.ops.push_back(Op("s_recover", L[k].first, L[k].second));
			path.push_back(L[k].first); fifos.push_back(L[k].second);
			L.erase(L.begin() + k);
		}
		else
			p.ops.push_back(Op("s_bcast", (int64_t)(1 << g.below(n))));
	}
	if (g.chance(1, 2))
		while (!path.empty())
		{
			path.pop_back(); fifos.pop_back();
			p.ops.push_back(Op("s_leave", 1, fifos.back()));
		}
	// ---- schedule with faults
	int sched = (int)g.range(0, tier.thorough ? 900 : 500);
	bool parted = false;
	for (int s = 0; s < sched; s++)
	{
		unsigned c = (unsigned)g.below(100);
		if (c < 4) p.ops.push_back(Op("flush", (int64_t)g.below(64)));
		else if (c < 45) p.ops.push_back(Op("hand", (int64_t)g.below(1000)));
		else if (c < 90 || !faults) p.ops.push_back(Op("act", (int64_t)g.below(n), (int64_t)g.below(8), (int64_t)g.below(n)));
		else if (c < 96 && byzmask) p.ops.push_back(Op("f_inj", (int64_t)g.below(8), (int64_t)g.below(n), (int64_t)g.below(64), (int64_t)g.below(64)));
		else if (c < 98 && !parted && n >= 3) { p.ops.push_back(Op("f_part", (int64_t)g.range(1, (1 << n) - 2))); parted = true; }
		else if (parted) { p.ops.push_back(Op("f_heal")); parted = false; }
		else p.ops.push_back(Op("hand", (int64_t)g.below(1000)));
	}
	return p;
}

// ------------------------------------------------------------------ execute
static RunResult rbc_execute(const Plan &plan)
{
	World W(plan);
	W.n = (size_t)plan.get("n", 4); W.t = (size_t)plan.get("t", 1);
	if (W.n < 2) W.n = 2;
	if (W.n > 8) W.n = 8;
	if (3 * W.t >= W.n) W.t = (W.n - 1) / 3;
	W.fifo_skip = (int)plan.get("fifo_skip", 0);
	W.dmode = (int)plan.get("dmode", 0);
	int64_t byzmask = plan.get("byzmask", 0);
	W.net.reset(new Net(&W.S, W.n, false));
	int64_t fsb = plan.get("fullstack", 0);
	W.fullstack = (fsb & 1) != 0;
	if (W.fullstack)
	{
		W.fdt.reset(new FdTable()); W.fdt->activate();
		W.stack.reset(new Stack(W.net.get(), W.fdt.get(), (fsb & 2) != 0, false, false, "tmcgsim-rbc", true));
		if (fsb & 4) W.stack->frag_num = 48;
		W.res.cnt["probe.fullstack_runs"]++;
	}
	W.P.resize(W.n);
	W.byz_profile.assign(W.n, 0);
	size_t nb = 0;
	int64_t prof = plan.get("byzprof", 0);
	for (size_t i = 0; i < W.n; i++)
	{
		W.P[i].byz = ((byzmask >> i) & 1) && (nb < W.t);
		if (W.P[i].byz) { W.byz_profile[i] = (int)(prof % 5); prof /= 5; nb++; }
		W.P[i].fifo_stack.push_back(1);
		W.S.single_party = (int)i;
		if (W.fullstack) W.P[i].aiou.reset(new StackUnicast(W.stack.get(), i, aiounicast::aio_timeout_very_long));
		else W.P[i].aiou.reset(new SimUnicast(W.net.get(), i));
		W.P[i].rbc.reset(new CachinKursawePetzoldShoupRBC(W.n, W.t, i, W.P[i].aiou.get(),
			aiounicast::aio_scheduler_roundrobin, aiounicast::aio_timeout_none, (size_t)W.fifo_skip));
	}
	World *Wp = &W;
	W.desynced.assign(W.n, false);
	auto is_core = [](const std::vector<std::string> &v){ return v.size() == 5 && v[3].size() == 1 && v[3][0] >= '1' && v[3][0] <= '5'; };
	W.net->tap = [Wp, is_core](size_t src, size_t, const Unit &u){
		if (is_core(u.ints)) Wp->core_sent++;
		if (u.ints.size() == 5 && u.ints[3] == "6") Wp->retrieve_sent++;
		if (Wp->wirelog.size() < 4000) Wp->wirelog.push_back(std::make_pair(src, u)); };
	static bool trace = getenv("TMCGSIM_TRACE") != NULL;
	W.net->on_receive = [Wp, is_core](size_t dst, size_t src, const std::vector<std::string> &ints){
		if (is_core(ints)) Wp->core_recv++;
		if (trace) { std::cerr << "TRACE recv at " << dst << " from " << src << ":"; for (size_t k = 0; k < ints.size(); k++) std::cerr << " " << ints[k].substr(0, 12); std::cerr << std::endl; } };
	W.net->filter = [Wp](size_t src, size_t dst, const Unit &u, std::vector<Unit> &out){ byz_filter(*Wp, src, dst, u, out); };
	// script
	for (size_t i = 0; i < plan.ops.size(); i++)
	{
		const Op &op = plan.ops[i];
		ScriptStep s; s.name = 0; s.fifo = 1; s.final_leave = 1; s.senders = 0;
		if (op.kind == "s_enter") { s.kind = ScriptStep::ENTER; s.name = (int)op.arg(0); s.fifo = (int)op.arg(1, 1); }
		else if (op.kind == "s_recover") { s.kind = ScriptStep::RECOVER; s.name = (int)op.arg(0); s.fifo = (int)op.arg(1, 1); }
		else if (op.kind == "s_leave") { s.kind = ScriptStep::LEAVE; s.final_leave = (int)op.arg(0, 1); s.fifo = (int)op.arg(1, 1); }
		else if (op.kind == "s_bcast") { s.kind = ScriptStep::BCAST; s.senders = op.arg(0); }
		else continue;
		W.script.push_back(s);
	}
	// sanitise the script (a minimised plan may have lost steps): drop leaves at depth 0, recover
	// only what was left at the same parent, keep the fifo flags consistent
	{
		std::vector<ScriptStep> clean; std::vector<int> path, fifos; fifos.push_back(1);
		std::map<std::string, std::map<int, int> > leftmap; std::map<int, bool> used;
		for (size_t i = 0; i < W.script.size(); i++)
		{
			ScriptStep s = W.script[i];
			if (s.kind == ScriptStep::ENTER)
			{
				if (path.size() >= 4 || used.count(s.name)) continue;
				used[s.name] = true; path.push_back(s.name); fifos.push_back(s.fifo);
			}
			else if (s.kind == ScriptStep::LEAVE)
			{
				if (path.empty()) continue;
				int nm = path.back(), f = fifos.back(); path.pop_back(); fifos.pop_back();
				s.fifo = fifos.back();
				if (!s.final_leave) leftmap[W.chan_key(path)][nm] = f;
			}
			else if (s.kind == ScriptStep::RECOVER)
			{
				std::map<int, int> &L = leftmap[W.chan_key(path)];
				if (!L.count(s.name) || path.size() >= 4) continue;
				s.fifo = L[s.name]; L.erase(s.name);
				path.push_back(s.name); fifos.push_back(s.fifo);
			}
			clean.push_back(s);
		}
		W.script = clean;
	}
	// ---- scheduled phase
	bool any_fault = false;
	for (size_t i = 0; i < plan.ops.size() && W.res.ok(); i++)
	{
		const Op &op = plan.ops[i];
		if (op.kind == "hand") { if (hand_nth(W, (size_t)op.arg(0))) W.res.cnt["probe.handovers"]++; }
		else if (op.kind == "flush") flush(W, (size_t)op.arg(0));
		else if (op.kind == "act")
		{
			size_t p = (size_t)op.arg(0) % W.n;
			int sel = (int)op.arg(1);
			if ((sel & 3) != 0 || !try_script_step(W, p))
				deliver_attempt(W, p, chan_mode(W, p), (size_t)op.arg(2));
		}
		else if (op.kind == "f_inj") { inject(W, op); any_fault = true; }
		else if (op.kind == "f_part")
		{
			int64_t m = op.arg(0);
			for (size_t a = 0; a < W.n; a++)
				for (size_t b = 0; b < W.n; b++)
					W.net->cut[a][b] = (((m >> a) & 1) != ((m >> b) & 1));
			W.res.cnt["fault.partition"]++; any_fault = true;
		}
		else if (op.kind == "f_heal")
		{
			for (size_t a = 0; a < W.n; a++) for (size_t b = 0; b < W.n; b++) W.net->cut[a][b] = false;
			W.res.cnt["fault.heal"]++;
		}
	}
	// ---- drain phase: no new injections, partitions healed, every message handed over
	for (size_t a = 0; a < W.n; a++) for (size_t b = 0; b < W.n; b++) W.net->cut[a][b] = false;
	W.in_drain = true;
	uint64_t rounds = 0;
	const uint64_t max_rounds = 400;
	bool quiescent = false;
	// Retrieve storm: once a Byzantine sender got a far-future sequence number acknowledged, every
	// honest party sends up to 40 l-retrieve requests per call and the queues grow faster than they are
	// served.  Delivery still happens "eventually", which is all C14 promises, but no step budget can
	// tell; such runs keep their safety checks and are not judged for liveness.
	const uint64_t storm_limit = 1500;
	bool storm = false;
	while (W.res.ok() && rounds < max_rounds)
	{
		if (W.retrieve_sent > storm_limit) { storm = true; break; }
		rounds++;
		bool any = false;
		// hand over everything in a seeded order
		for (int guard = 0; guard < 100000; guard++)
		{
			if (!hand_nth(W, (size_t)W.S.sched.below(1000))) break;
			any = true;
		}
		for (size_t k = 0; k < W.n; k++)
		{
			size_t p = (k + rounds) % W.n;
			if (party_drain(W, p)) any = true;
		}
		size_t core_in_flight = 0;
		for (size_t a = 0; a < W.n; a++) for (size_t b = 0; b < W.n; b++)
			for (size_t k = 0; k < W.net->flight[a][b].size(); k++)
				if (is_core(W.net->flight[a][b][k].ints)) core_in_flight++;
		(void)core_in_flight;
		if (!any && W.net->in_flight() == 0) { quiescent = true; break; }
	}
	W.res.cnt["probe.drain_rounds_max"] = rounds;
	if (W.retrieve_sent > storm_limit) storm = true;
	if (storm) W.res.cnt["probe.retrieve_storm_runs"]++;
	if (W.res.ok() && !storm)
	{
		if (!quiescent)
			W.violate("liveness_no_quiescence", "drain phase did not become quiescent in " + std::to_string(max_rounds) + " rounds");
		// validity: every honest party finished the script (final leaves wait for honest broadcasts)
		for (size_t p = 0; p < W.n && W.res.ok(); p++)
		{
			if (W.P[p].byz) continue;
			if (W.fifo_skip > 0) continue; // order and completeness deliberately given up by the implementation
			if (W.P[p].sp < W.script.size())
			{
				std::ostringstream o; o << "party " << p << " stuck at script step " << W.P[p].sp << "/" << W.script.size()
					<< " in channel " << W.chan_key(W.P[p].path) << " (dmode=" << W.dmode << ") after all messages were handed over";
				W.violate(W.dmode == 1 ? "validity_deliverfrom" : (W.dmode == 0 ? "validity_deliver" : "validity_mixed"), o.str());
				break;
			}
			// the final channel: everything broadcast there by honest senders must have arrived
			std::string chan = W.chan_key(W.P[p].path);
			if (!has_all_expected(W, p, chan, W.script.size()))
			{
				std::ostringstream o; o << "party " << p << " misses broadcasts of honest senders in final channel " << chan
					<< " (dmode=" << W.dmode << ")";
				W.violate(W.dmode == 1 ? "validity_deliverfrom" : (W.dmode == 0 ? "validity_deliver" : "validity_mixed"), o.str());
				break;
			}
		}
		// totality in the final channel (also for Byzantine senders)
		if (W.res.ok() && W.fifo_skip == 0)
		{
			for (size_t s = 0; s < W.n && W.res.ok(); s++)
			{
				std::set<std::string> uni; std::vector<std::set<std::string> > per(W.n);
				for (size_t p = 0; p < W.n; p++)
				{
					if (W.P[p].byz) continue;
					std::string chan = W.chan_key(W.P[p].path);
					if (W.P[p].delivered.count(chan))
						for (size_t k = 0; k < W.P[p].delivered[chan][s].size(); k++)
						{
							per[p].insert(W.P[p].delivered[chan][s][k]); uni.insert(W.P[p].delivered[chan][s][k]);
						}
				}
				for (size_t p = 0; p < W.n; p++)
				{
					if (W.P[p].byz) continue;
					if (per[p].size() != uni.size())
					{
						std::ostringstream o; o << "sender " << s << (W.P[s].byz ? " (Byzantine)" : "") << ": party " << p << " delivered "
							<< per[p].size() << " of " << uni.size() << " slots that some honest party delivered in the final channel";
						W.violate("totality", o.str());
						break;
					}
				}
			}
		}
	}
	// ---- probes from library chatter
	std::string err = W.cap.str();
	if (getenv("TMCGSIM_TRACE"))
	{
		printf("---- library stderr ----\n%s\n---- deliveries ----\n", err.c_str());
		for (size_t p = 0; p < W.n; p++)
			for (std::map<std::string, std::vector<std::vector<std::string> > >::iterator it = W.P[p].delivered.begin(); it != W.P[p].delivered.end(); ++it)
				for (size_t s2 = 0; s2 < it->second.size(); s2++)
					for (size_t k = 0; k < it->second[s2].size(); k++)
						printf("party %zu chan %s sender %zu [%zu] %s\n", p, it->first.c_str(), s2, k, it->second[s2][k].c_str());
		for (std::map<std::string, Bcast>::iterator it = W.bcast_index.begin(); it != W.bcast_index.end(); ++it)
			printf("bcast %s sender %zu chan %s seq %zu\n", it->first.c_str(), it->second.sender, it->second.chan.c_str(), it->second.seq);
		for (size_t p = 0; p < W.n; p++)
			printf("party %zu byz=%d sp=%zu/%zu chan=%s\n", p, (int)W.P[p].byz, W.P[p].sp, W.script.size(), W.chan_key(W.P[p].path).c_str());
		fflush(stdout);
	}
	W.res.cnt["probe.r_request_path"] += count_substr(err, "not ready for processing") + count_substr(err, "bad r-answer");
	W.res.cnt["probe.faked_r_send"] += count_substr(err, "received faked r-send");
	W.res.cnt["probe.l_retrieve_sent"] += count_substr(err, "l-retrieve sent");
	W.res.cnt["probe.out_of_order_retrieved"] += count_substr(err, "out-of-order handler successfully");
	W.res.cnt["probe.obsolete_removed"] += count_substr(err, "remove obsolete message");
	W.res.cnt["probe.seqctr_mismatch_buffered"] += count_substr(err, "sequence counter does not match");
	W.res.cnt["probe.dup_message_ignored"] += count_substr(err, "more than once from");
	W.res.cnt["probe.wrong_field_discarded"] += count_substr(err, "wrong j in tag") + count_substr(err, "wrong s in tag") + count_substr(err, "wrong action in tag");
	W.res.cnt["probe.discarded_action"] += count_substr(err, "WARNING - discard message");
	W.res.cnt["probe.fifo_skip_adjust"] += count_substr(err, "adjust deliver sequence");
	W.res.cnt["probe.drain_rounds"] += rounds;
	W.res.cnt["probe.units_sent"] += W.net->units_sent;
	if (W.fullstack)
	{
		W.res.cnt["probe.fullstack_bytes_delivered"] += W.stack->bytes_released;
		W.res.cnt["probe.fullstack_integers_framed"] += W.stack->frames;
		W.res.cnt["probe.fullstack_integers_checked_against_model"] += W.stack->n_checked;
		W.res.cnt["fault.stack_unit_in_two_pieces"] += W.stack->n_partial;
		if (!W.stack->violation.empty() && W.res.ok())
			W.res.violate("C13", "fullstack_channel", "rbc:fullstack_channel", "transport of the broadcast: " + W.stack->violation + " [auth=" + std::to_string((int)W.stack->auth) + "]");
	}
	W.res.fingerprint = W.S.hist.h;
	W.res.steps = W.actions + W.net->units_handed;
	W.res.sim_ms = W.S.now_ms;
	W.res.nontrivial = any_fault || nb > 0 || W.net->units_handed > 0;
	if (!W.res.ok())
		W.res.detail += " | drain_rounds=" + std::to_string(rounds);
	return W.res;
}

static void rbc_shrink_more(const Plan &plan, std::vector<Plan> &out)
{
	// smaller configurations: drop the byzantine parties, switch off fifo_skip, fewer parties
	if (plan.get("byzmask", 0)) { Plan q = plan; q.cfg["byzmask"] = 0; out.push_back(q); }
	if (plan.get("fifo_skip", 0)) { Plan q = plan; q.cfg["fifo_skip"] = 0; out.push_back(q); }
	if (plan.get("n", 4) > 2)
	{
		Plan q = plan; q.cfg["n"] = plan.get("n", 4) - 1;
		if (3 * q.cfg["t"] >= q.cfg["n"]) q.cfg["t"] = (q.cfg["n"] - 1) / 3;
		out.push_back(q);
	}
	if (plan.get("t", 0) > 0) { Plan q = plan; q.cfg["t"] = plan.get("t", 0) - 1; q.cfg["byzmask"] = 0; out.push_back(q); }
}

int main(int argc, char **argv)
{
	Scenario sc;
	sc.name = "rbc";
	sc.real_components = "src/CachinKursawePetzoldShoupSEABP.cc (Broadcast, Deliver, DeliverFrom, setID/unsetID/recoverID), mpz_shash, mpz_srandom, libgmp, libgcrypt hash";
	sc.stub_components = "aiounicast_select replaced by SimUnicast (in-memory per-link FIFO of integers, harness-controlled hand-over) except in full-stack runs (probe.fullstack_runs; 1 of 8 by default), where the real aiounicast_select frames every integer and a hand-over makes the bytes of one unit visible - optionally only up to an arbitrary byte for one receive call; wall clock; entropy (seeded PRNG behind gcry_* random entry points); Byzantine parties played by a real RBC instance behind a mutating link filter plus harness message injection";
	sc.rule = "one case = seeded plan (n,t,Byzantine set and profile, transport = SimUnicast or (1 run in 16) the library's aiounicast_select framing every integer over simulated descriptors, channel script with nested/recovered IDs, 0..900 schedule ops: hand-over of one in-flight message on a chosen link, one Deliver/DeliverFrom step at a chosen party, script step, Byzantine injection, partition/heal) followed by a fault-free drain phase; distinct = distinct history fingerprint (hash over every send, hand-over, step and delivered value); non-trivial = at least one message was handed over or a fault fired";
	sc.generate = rbc_generate;
	sc.execute = rbc_execute;
	sc.shrink_more = rbc_shrink_more;
	return runner_main(argc, argv, sc);
}
