// Scenario qrcards (C01, C02 for the quadratic-residuosity card encoding of Schindelhauer): k players
// with Rabin keys, masking chains and shuffles by any players, openings compared with a reference
// model.  No transport is simulated here: each player's opening bits are computed with its own secret
// key (TMCG_SelfCardSecret), i.e. the verified opening information of all k players.
// Added later: the interactive proofs of this encoding run as two-task sessions over the simulated stream
// pair with a relaying man-in-the-middle (C03 honest proofs are accepted, C04 a false statement is refused,
// C05 an altered line is refused, C01 opening with the verified bits of the other players).
#include "common.hh"
#include "simstream.hh"
#include <memory>

using namespace sim;

namespace {

static std::vector<TMCG_SecretKey*> g_sk;
static TMCG_SecretKey *g_nizk_sk = NULL;   // one key with the non-interactive proof of its well-formedness
static bool g_nizk_ok = false;            // the harness's re-signing of that key gives an accepted key

// the owner signs its (altered) key again, as TMCG_SecretKey::generate does
static void resign_key(TMCG_SecretKey &sec)
{
	std::ostringstream data, repl;
	sec.sig = "";
	data << sec.name << "|" << sec.email << "|" << sec.type << "|" << sec.m << "|" << sec.y << "|" << sec.nizk << "|";
	sec.sig = sec.sign(data.str());
	repl << "ID" << TMCG_KEYID_SIZE << "^";
	size_t pos = sec.sig.find(repl.str());
	if (pos != std::string::npos) sec.sig.replace(pos, (repl.str()).length() + TMCG_KEYID_SIZE, sec.keyid());
}
// the proof "nzk^c1^v..^c2^v..^c3^v..^" with stage 'stage' (0..2) cut down to K rounds; empty if the layout is another
static std::string truncate_key_proof(const std::string &nizk, int stage, size_t K, size_t *rounds_out)
{
	std::vector<std::string> t; std::string cur;
	for (size_t i = 0; i < nizk.size(); i++) { if (nizk[i] == '^') { t.push_back(cur); cur.clear(); } else cur += nizk[i]; }
	if (t.empty() || t[0] != "nzk") return "";
	std::ostringstream o; o << "nzk^";
	size_t pos = 1;
	for (int st = 0; st < 3; st++)
	{
		if (pos >= t.size()) return "";
		size_t cnt = (size_t)strtoul(t[pos].c_str(), NULL, 10);
		if (cnt == 0 || cnt > 4096 || pos + 1 + cnt > t.size()) return "";
		size_t keep = cnt;
		if (st == stage) { if (rounds_out) *rounds_out = cnt; keep = K % cnt; } // 0 .. cnt-1 rounds
		o << keep << "^";
		for (size_t i = 0; i < keep; i++) o << t[pos + 1 + i] << "^";
		pos += 1 + cnt;
	}
	if (pos != t.size()) return "";
	return o.str();
}

static void qr_init(const Tier &)
{
	if (!g_sk.empty()) return;
	Sim S(0x9a4d5001ULL, 2); S.single_party = 0; CerrCapture cap;
	for (int i = 0; i < 6; i++)
	{
		std::ostringstream n; n << "P" << i;
		g_sk.push_back(new TMCG_SecretKey(n.str(), "p@example.org", (i % 2) ? 768 : 640, false));
	}
	// a key with the well-formedness proof; self-test of the harness: the unchanged proof, signed again by the owner
	// the way the harness does it, gives a key that check() accepts (otherwise nothing is asserted about altered proofs)
	g_nizk_sk = new TMCG_SecretKey("N", "n@example.org", 640, true);
	{
		TMCG_SecretKey c(*g_nizk_sk); resign_key(c);
		TMCG_PublicKey pk(c); std::ostringstream o; o << pk; TMCG_PublicKey pk2; std::istringstream in(o.str()); in >> pk2;
		g_nizk_ok = TMCG_PublicKey(*g_nizk_sk).check() && pk2.check();
	}
}

} // namespace

static Plan qr_generate(uint64_t seed, const Tier &tier)
{
	Plan p; p.seed = seed; p.property = tier.property.empty() ? "C01" : tier.property;
	Rng g(derive(seed, 1));
	bool proofs = tier.opt.count("noproofs") == 0, faults = tier.opt.count("nofaults") == 0;
	// plans with proof sessions stay small: a cut-and-choose round re-masks every value of every card
	int k = proofs ? (int)g.range(2, 4) : (int)g.range(2, 5);
	p.cfg["keyproof"] = (proofs && faults) ? 1 : 0; // altered key proofs (C05) only in the legs with proof sessions and faults
	p.cfg["k"] = k; p.cfg["w"] = proofs ? (g.chance(1, 8) ? 4 : (int64_t)g.range(1, 3)) : (g.chance(1, 6) ? (int64_t)g.range(5, 8) : (int64_t)g.range(1, 4));
	int64_t nmaxs = proofs ? 6 : 10;
	// rarely a full table: 31 or 32 seats (TMCG_MAX_PLAYERS; the six keys of the pool repeat) with one or two type bits,
	// or the maximum number of type bits with two seats
	if (g.chance(1, 25)) { k = (int)g.range(31, 32); p.cfg["k"] = k; p.cfg["w"] = (int64_t)g.range(1, 2); nmaxs = 3; }
	else if (!proofs && g.chance(1, 25)) { k = 2; p.cfg["k"] = k; p.cfg["w"] = (int64_t)g.range(9, TMCG_MAX_TYPEBITS); }
	p.cfg["tap"] = g.chance(1, 2); p.cfg["keys"] = (int64_t)g.below(720);
	int nops = (int)g.range(3, proofs ? 8 : (tier.thorough ? 20 : 12));
	const std::string &prop = p.property;
	p.cfg["kappa"] = (int64_t)g.range(1, 6); p.cfg["chunked"] = g.chance(1, 3);
	p.ops.push_back(Op("card", (int64_t)g.below(1 << 10), g.chance(1, 3) ? (int64_t)g.below(k) : -1));
	p.ops.push_back(Op("stack", (int64_t)g.range(1, nmaxs), (int64_t)g.below(1 << 20)));
	for (int i = 0; i < nops; i++)
	{
		unsigned c = (unsigned)g.below(100);
		if (c < 15) p.ops.push_back(Op("card", (int64_t)g.below(1 << 10), g.chance(1, 3) ? (int64_t)g.below(k) : -1));
		else if (c < 45) p.ops.push_back(Op("mask", (int64_t)g.below(k), (int64_t)g.below(64)));
		else if (c < 60) p.ops.push_back(Op("open", (int64_t)g.below(64)));
		else if (c < 68) p.ops.push_back(Op("stack", (int64_t)g.range(1, nmaxs), (int64_t)g.below(1 << 20)));
		else if (c < 88) p.ops.push_back(Op("mix", (int64_t)g.below(k), (int64_t)g.below(16), g.chance(2, 5) ? 1 : 0));
		else p.ops.push_back(Op("openstack", (int64_t)g.below(16)));
		if (proofs && g.chance(1, 2))
		{
			// fault: 0 none, 1 false statement (C04), 2 line altered in transit (C05)
			int64_t ft = 0; unsigned q = (unsigned)g.below(100);
			bool nofalse = tier.opt.count("nofalse") != 0; // sanitizer legs: the 32-round sessions of the false statements cost minutes there
			if (faults) { if (prop == "C04") ft = (q < 70) ? 1 : 0; else if (prop == "C05") ft = (q < 80) ? 2 : 0; else if (prop == "C03") ft = 0; else ft = (q < 25) ? 1 : ((q < 50) ? 2 : 0); }
			if (nofalse && ft == 1) ft = 2;
			unsigned c2 = (unsigned)g.below(3);
			Op op(c2 == 0 ? "vopen" : (c2 == 1 ? "pmask" : "pstack"));
			op.a.push_back((int64_t)g.below(k)); op.a.push_back((int64_t)g.below(64)); op.a.push_back(g.chance(2, 5) ? 1 : 0);
			op.a.push_back(ft); op.a.push_back((int64_t)g.below(1 << 16)); op.a.push_back((int64_t)g.below(1 << 16)); op.a.push_back((int64_t)g.below(1 << 16));
			p.ops.push_back(op);
		}
	}
	p.ops.push_back(Op("open", (int64_t)g.below(64)));
	p.ops.push_back(Op("openstack", (int64_t)g.below(16)));
	return p;
}

static RunResult qr_execute(const Plan &plan)
{
	RunResult res;
	Sim S(plan.seed, TMCG_MAX_PLAYERS + 8); S.single_party = 0; // one coin stream per seat (up to TMCG_MAX_PLAYERS) and a few spare
	CerrCapture cap;
	size_t k = (size_t)std::max<int64_t>(2, std::min<int64_t>(TMCG_MAX_PLAYERS, plan.get("k", 2)));
	size_t w = (size_t)std::max<int64_t>(1, std::min<int64_t>(TMCG_MAX_TYPEBITS, plan.get("w", 2)));
	size_t maxtype = (size_t)1 << w;
	bool tap = plan.get("tap", 1) != 0;
	// choose k keys from the pool (seeded order)
	std::vector<size_t> idx; for (size_t i = 0; i < g_sk.size(); i++) idx.push_back(i);
	uint64_t ks = (uint64_t)plan.get("keys", 0);
	for (size_t i = 0; i + 1 < idx.size(); i++) { size_t j = i + ks % (idx.size() - i); ks /= (idx.size() - i); std::swap(idx[i], idx[j]); }
	TMCG_PublicKeyRing ring(k);
	std::vector<TMCG_SecretKey*> sk;
	for (size_t i = 0; i < k; i++) { sk.push_back(g_sk[idx[i % idx.size()]]); ring.keys[i] = TMCG_PublicKey(*sk[i]); }
	SchindelhauerTMCG tmcg(4, k, w);
	struct CardRec { TMCG_Card c; size_t type; size_t masked; };
	struct StackRec { TMCG_Stack<TMCG_Card> s; std::vector<size_t> types; };
	std::vector<CardRec> cards; std::vector<StackRec> stacks;
	auto violate = [&](const std::string &prop, const std::string &cls, const std::string &d)
	{
		std::ostringstream c; c << " [QR encoding, k=" << k << " w=" << w << " tap=" << tap << "]";
		res.violate(prop, cls, "qrcards:" + cls, d + c.str());
	};
	auto open = [&](const TMCG_Card &c) -> size_t
	{
		TMCG_CardSecret cs(k, w);
		for (size_t p = 0; p < k; p++) { S.single_party = (int)p; tmcg.TMCG_SelfCardSecret(c, cs, *sk[p], p); }
		return tmcg.TMCG_TypeOfCard(cs);
	};
	// ---- proof sessions: prover and verifier as two tasks over the simulated stream pair
	size_t kappa = (size_t)std::max<int64_t>(1, std::min<int64_t>(8, plan.get("kappa", 4)));
	SchindelhauerTMCG tmcgP(kappa, k, w);   // honest proofs and altered transcripts
	SchindelhauerTMCG tmcgS(32, k, w);      // false statements: refused except with probability 2^-32
	bool chunked = plan.get("chunked", 0) != 0;
	typedef std::function<bool(std::istream &, std::ostream &)> RoleFn;
	auto plus_one_token = [](const std::string &line, size_t tok, std::string &out) -> bool
	{
		// +1 on the tok-th long alphanumeric token of a line (plain value, card, stack or secret)
		std::vector<std::pair<size_t, size_t> > toks; size_t i = 0;
		while (i < line.size())
		{
			if (isalnum((unsigned char)line[i])) { size_t j = i; while (j < line.size() && isalnum((unsigned char)line[j])) j++; if (j - i >= 8) toks.push_back(std::make_pair(i, j - i)); i = j; }
			else i++;
		}
		if (toks.empty()) return false;
		std::pair<size_t, size_t> t = toks[tok % toks.size()];
		Z v; if (mpz_set_str(v, line.substr(t.first, t.second).c_str(), TMCG_MPZ_IO_BASE) != 0) return false;
		mpz_add_ui(v, v, 1);
		out = line.substr(0, t.first) + v.io() + line.substr(t.first + t.second);
		return out != line;
	};
	// runs one session; ft 0: honest, 2: one prover->verifier line altered.  Returns the verifier's verdict.
	auto session = [&](const char *what, size_t pj, size_t vj, RoleFn pf, RoleFn vf, int ft, int64_t fa, int64_t fb, bool &fired) -> int
	{
		fired = false;
		size_t nlines = 0;
		if (ft == 2)
		{
			// a clean run from the same party streams counts the prover's lines
			Rng sp = S.party[pj], sv = S.party[vj];
			Session c0(S); c0.chunked = chunked; c0.run((int)pj, (int)vj, pf, vf);
			for (size_t i = 0; i < c0.transcript.size(); i++) if (c0.transcript[i].dir == 0) nlines++;
			if (c0.ret[1] != 1) { violate("C03", std::string("honest_proof_rejected_") + what, "verifier returned " + std::to_string(c0.ret[1]) + " on an honest proof"); return c0.ret[1]; }
			S.party[pj] = sp; S.party[vj] = sv;
			if (!nlines) return 1;
		}
		Session ses(S); ses.chunked = chunked;
		size_t target = nlines ? (size_t)fa % nlines : 0;
		if (ft == 2)
			ses.relay = [&fired, target, fb, &plus_one_token](int dir, size_t idx, const std::string &line, std::vector<std::string> &out)
			{
				std::string m;
				if (dir == 0 && idx == target && plus_one_token(line, (size_t)fb, m)) { out.push_back(m); fired = true; }
				else out.push_back(line);
			};
		ses.run((int)pj, (int)vj, pf, vf);
		res.cnt["probe.sessions"]++;
		return ses.ret[1];
	};
	for (size_t oi = 0; oi < plan.ops.size() && res.ok(); oi++)
	{
		const Op &op = plan.ops[oi];
		S.hist.add(H_OP, oi, op.arg(0), op.arg(1));
		if (op.kind == "vopen" || op.kind == "pmask" || op.kind == "pstack")
		{
			int ft = (int)op.arg(3); int64_t fa = op.arg(4), fb = op.arg(5), fc = op.arg(6);
			size_t pj = (size_t)op.arg(0) % k, vj = (pj + 1 + (size_t)fc % (k - 1)) % k;
			SchindelhauerTMCG &T = (ft == 1) ? tmcgS : tmcgP;
			bool fired = false;
			if (op.kind == "vopen")
			{
				// the observer vj opens a card with the verified bits of every other player; fault: player pj's proof
				if (cards.empty()) continue;
				const CardRec &cr = cards[(size_t)op.arg(1) % cards.size()];
				TMCG_CardSecret cs(k, w); bool all_ok = true, judged = true;
				for (size_t q = 0; q < k && res.ok(); q++)
				{
					if (q == vj) { S.single_party = (int)vj; T.TMCG_SelfCardSecret(cr.c, cs, *sk[vj], vj); continue; }
					const TMCG_Card *cp = &cr.c; TMCG_SecretKey *skq = sk[q]; TMCG_PublicKey *pkq = &ring.keys[q]; TMCG_CardSecret *csp = &cs; SchindelhauerTMCG *Tp = &T;
					RoleFn pf = [Tp, cp, skq, q](std::istream &in, std::ostream &out) -> bool { Tp->TMCG_ProveCardSecret(*cp, *skq, q, in, out); return true; };
					RoleFn vf = [Tp, cp, csp, pkq, q](std::istream &in, std::ostream &out) -> bool { return Tp->TMCG_VerifyCardSecret(*cp, *csp, *pkq, q, in, out); };
					int f2 = (q == pj && ft == 2) ? 2 : 0;
					int v = session("cardsecret", q, vj, pf, vf, f2, fa, fb, fired);
					if (!res.ok()) break;
					if (f2 == 2 && fired)
					{
						res.cnt["fault.mitm_mut"]++; judged = false;
						if (v == 1) violate("C05", "mutated_transcript_accepted_cardsecret", "line " + std::to_string(fa) + " (mod the prover's lines) of player " + std::to_string(q) + "'s opening proof was altered and the verifier still accepted");
					}
					else if (v != 1) { all_ok = false; violate("C03", "honest_proof_rejected_cardsecret", "opening proof of player " + std::to_string(q) + " was rejected by player " + std::to_string(vj)); }
				}
				if (res.ok() && judged && all_ok)
				{
					size_t t = T.TMCG_TypeOfCard(cs); res.cnt["probe.cards_opened_verified"]++;
					if (t != cr.type) violate("C01", "wrong_type_opened", "card created with type " + std::to_string(cr.type) + " and masked " + std::to_string(cr.masked) + " times opens to " + std::to_string(t) + " with the verified bits of all players");
				}
			}
			else if (op.kind == "pmask")
			{
				if (cards.empty()) continue;
				CardRec &cr = cards[(size_t)op.arg(1) % cards.size()];
				S.single_party = (int)pj;
				TMCG_CardSecret cs(k, w); TMCG_Card cc(k, w), shown(k, w);
				T.TMCG_CreateCardSecret(cs, ring, pj); T.TMCG_MaskCard(cr.c, cc, cs, ring, tap);
				shown = cc; std::string what = "none";
				if (ft == 1)
				{
					// the verifier is shown another output card: the masking of the same card under another secret
					TMCG_CardSecret cs2(k, w); T.TMCG_CreateCardSecret(cs2, ring, pj); T.TMCG_MaskCard(cr.c, shown, cs2, ring, tap);
					if ((fa & 1) && k * w > 0) { shown = cc; size_t a = (size_t)fb % k, b = (size_t)fc % w; mpz_mul(&shown.z[a][b], &shown.z[a][b], ring.keys[a].y); mpz_mod(&shown.z[a][b], &shown.z[a][b], ring.keys[a].m); what = "one component multiplied by the non-residue y"; }
					else what = "output card of another masking";
					res.cnt["fault.false_statement"]++;
				}
				const TMCG_Card *cin = &cr.c, *cout = &cc, *cshown = &shown; const TMCG_CardSecret *csp = &cs; const TMCG_PublicKeyRing *rp = &ring; SchindelhauerTMCG *Tp = &T;
				RoleFn pf = [Tp, cin, cout, csp, rp](std::istream &in, std::ostream &out) -> bool { Tp->TMCG_ProveMaskCard(*cin, *cout, *csp, *rp, in, out); return true; };
				RoleFn vf = [Tp, cin, cshown, rp](std::istream &in, std::ostream &out) -> bool { return Tp->TMCG_VerifyMaskCard(*cin, *cshown, *rp, in, out); };
				int v = session("maskcard", pj, vj, pf, vf, ft == 2 ? 2 : 0, fa, fb, fired);
				if (!res.ok()) break;
				if (ft == 1) { if (v == 1) violate("C04", "false_statement_accepted_maskcard", "masking proof accepted although the verifier was shown another card (" + what + "), kappa = 32"); }
				else if (ft == 2 && fired) { res.cnt["fault.mitm_mut"]++; if (v == 1) violate("C05", "mutated_transcript_accepted_maskcard", "line " + std::to_string(fa) + " (mod the prover's lines) of a masking proof was altered and the verifier still accepted"); }
				else if (v != 1) violate("C03", "honest_proof_rejected_maskcard", "honest masking proof rejected (verifier returned " + std::to_string(v) + ")");
				if (res.ok()) { cr.c = cc; cr.masked++; res.cnt["probe.maskings_proved"]++; }
			}
			else
			{
				if (stacks.empty()) continue;
				StackRec &sr = stacks[(size_t)op.arg(1) % stacks.size()];
				size_t n = sr.s.size(); bool cyclic = op.arg(2) != 0 && n >= 2;
				S.single_party = (int)pj;
				TMCG_StackSecret<TMCG_CardSecret> ss; TMCG_Stack<TMCG_Card> out2, shown;
				T.TMCG_CreateStackSecret(ss, cyclic, ring, pj, n);
				T.TMCG_MixStack(sr.s, out2, ss, ring, tap);
				shown = out2; std::string what = "none"; bool false_stmt = false;
				if (ft == 1 && n >= 2)
				{
					// the verifier is shown a stack in which one card was replaced by a masking of another input card
					size_t a = (size_t)fa % n, b = (a + 1 + (size_t)fb % (n - 1)) % n;
					if (sr.types[ss[a].first] != sr.types[ss[b].first] || true)
					{
						TMCG_CardSecret cs2(k, w); TMCG_Card c2(k, w); T.TMCG_CreateCardSecret(cs2, ring, pj);
						T.TMCG_MaskCard(sr.s[ss[b].first], c2, cs2, ring, tap);
						TMCG_Stack<TMCG_Card> e; for (size_t i = 0; i < n; i++) e.push(i == a ? c2 : out2[i]);
						shown = e; false_stmt = true; what = "position " + std::to_string(a) + " replaced by a fresh masking of the input card behind position " + std::to_string(b);
						res.cnt["fault.false_statement"]++;
					}
				}
				const TMCG_Stack<TMCG_Card> *sin = &sr.s, *sout = &out2, *sshown = &shown; const TMCG_StackSecret<TMCG_CardSecret> *ssp = &ss; const TMCG_PublicKeyRing *rp = &ring; SchindelhauerTMCG *Tp = &T;
				RoleFn pf = [Tp, sin, sout, ssp, cyclic, rp, pj](std::istream &in, std::ostream &out) -> bool { Tp->TMCG_ProveStackEquality(*sin, *sout, *ssp, cyclic, *rp, pj, in, out); return true; };
				RoleFn vf = [Tp, sin, sshown, cyclic, rp](std::istream &in, std::ostream &out) -> bool { return Tp->TMCG_VerifyStackEquality(*sin, *sshown, cyclic, *rp, in, out); };
				int v = session("stackequality", pj, vj, pf, vf, ft == 2 ? 2 : 0, fa, fb, fired);
				if (!res.ok()) break;
				if (false_stmt) { if (v == 1) violate("C04", "false_statement_accepted_stackequality", "shuffle proof accepted although " + what + ", kappa = 32"); }
				else if (ft == 2 && fired) { res.cnt["fault.mitm_mut"]++; if (v == 1) violate("C05", "mutated_transcript_accepted_stackequality", "line " + std::to_string(fa) + " (mod the prover's lines) of a shuffle proof was altered and the verifier still accepted"); }
				else if (v != 1) violate("C03", "honest_proof_rejected_stackequality", "honest shuffle proof rejected (verifier returned " + std::to_string(v) + "), n=" + std::to_string(n) + (cyclic ? " cyclic" : ""));
				if (res.ok())
				{
					std::vector<size_t> nt(n); for (size_t i = 0; i < n; i++) nt[i] = sr.types[ss[i].first];
					sr.s = out2; sr.types = nt; res.cnt["probe.shuffles_proved"]++;
				}
			}
			continue;
		}
		if (op.kind == "card" && g_nizk_ok && (op.arg(0) % 5) == 0 && plan.get("keyproof", 0))
		{
			// C05 (non-interactive proof, truncation): a key owner cuts one stage of the proof of its key down to fewer
			// rounds than the security parameter demands and signs the key again; the receiving player must refuse it
			Rng gk(derive(plan.seed, 500 + oi));
			int stage = (int)gk.below(3); size_t rounds = 0;
			size_t K = gk.chance(1, 3) ? (size_t)gk.below(4) : (gk.chance(1, 2) ? (size_t)(4096 - 1 - gk.below(3)) : (size_t)gk.below(4096));
			TMCG_SecretKey c(*g_nizk_sk);
			std::string cut = truncate_key_proof(c.nizk, stage, K, &rounds);
			if (!cut.empty())
			{
				S.single_party = 8; c.nizk = cut; resign_key(c);
				TMCG_PublicKey pk(c); std::ostringstream o; o << pk; TMCG_PublicKey got; std::istringstream in(o.str()); in >> got;
				S.single_party = 0;
				bool acc = false; try { acc = got.check(); } catch (std::exception &) {}
				res.cnt["fault.key_proof_stage_truncated"]++;
				S.hist.add(H_FAULT, 77, (uint64_t)stage, (uint64_t)(K % (rounds ? rounds : 1)) * 2 + (acc ? 1 : 0));
				if (acc) violate("C05", "key_proof_truncated_accepted", "a key whose well-formedness proof has stage " + std::to_string(stage + 1) + " cut down to " + std::to_string(K % rounds) + " of " + std::to_string(rounds) + " rounds (signed again by its owner) passes check()");
				if (!res.ok()) break;
			}
		}
		if (op.kind == "card")
		{
			// C11: keys reset on import - a public and a secret key are re-imported into used objects holding another key
			if (k >= 2)
			{
				size_t a = (size_t)op.arg(0) % k, b = (a + 1) % k;
				TMCG_PublicKey used(ring.keys[b]); std::ostringstream o1; o1 << ring.keys[a]; std::istringstream in(o1.str() + "\n"); in >> used; std::ostringstream o2; o2 << used;
				if ((!in.good() && !in.eof()) || o1.str() != o2.str() || mpz_cmp(used.m, ring.keys[a].m) || mpz_cmp(used.y, ring.keys[a].y)) violate("C11", "roundtrip_publickey_into_used", "public key imported into an object holding another key differs from the exported one");
				TMCG_SecretKey useds(*sk[b]); std::ostringstream s1; s1 << *sk[a]; std::istringstream in2(s1.str() + "\n"); in2 >> useds; std::ostringstream s2; s2 << useds;
				if ((!in2.good() && !in2.eof()) || s1.str() != s2.str()) violate("C11", "roundtrip_secretkey_into_used", "secret key imported into an object holding another key differs from the exported one");
				else if (res.ok())
				{
					// the restored key still works: a signature made with it verifies under the public key
					S.single_party = (int)a; std::string sig = useds.sign("restart"); 
					if (!ring.keys[a].verify("restart", sig)) violate("C11", "restored_secretkey_unusable", "signature made with a re-imported secret key does not verify");
				}
				res.cnt["probe.key_roundtrips"]++;
				if (!res.ok()) break;
			}
			CardRec r; r.c = TMCG_Card(k, w); r.type = (size_t)op.arg(0) % maxtype; r.masked = 0;
			if (op.arg(1) >= 0)
			{
				TMCG_CardSecret cs(k, w); size_t j = (size_t)op.arg(1) % k; S.single_party = (int)j;
				tmcg.TMCG_CreatePrivateCard(r.c, cs, ring, j, r.type); r.masked = 1; res.cnt["probe.private_cards"]++;
			}
			else tmcg.TMCG_CreateOpenCard(r.c, ring, r.type);
			cards.push_back(r);
		}
		else if (op.kind == "mask")
		{
			if (cards.empty()) continue;
			size_t j = (size_t)op.arg(0) % k; CardRec &cr = cards[(size_t)op.arg(1) % cards.size()];
			S.single_party = (int)j;
			TMCG_CardSecret cs(k, w); TMCG_Card cc(k, w);
			tmcg.TMCG_CreateCardSecret(cs, ring, j);
			tmcg.TMCG_MaskCard(cr.c, cc, cs, ring, tap);
			cr.c = cc; cr.masked++; res.cnt["probe.maskings"]++;
		}
		else if (op.kind == "open")
		{
			if (cards.empty()) continue;
			const CardRec &cr = cards[(size_t)op.arg(0) % cards.size()];
			// C11: a card resets on import - re-import the exported text into a *used* card of another shape
			{
				size_t k2 = 1 + (size_t)(op.arg(0) * 7 + oi) % 6, w2 = 1 + (size_t)(op.arg(0) * 13 + oi * 5) % 8;
				TMCG_Card used(k2, w2);
				for (size_t a = 0; a < used.z.size(); a++) for (size_t b = 0; b < used.z[a].size(); b++) mpz_set_ui(&used.z[a][b], 1000 + a * 10 + b);
				std::ostringstream o1; o1 << cr.c; std::istringstream in(o1.str() + "\n"); in >> used;
				std::ostringstream o2; o2 << used; res.cnt["probe.roundtrips_into_used"]++;
				if (!in.good() && !in.eof()) violate("C11", "import_refused_card_into_used", "re-import of an exported " + std::to_string(k) + "x" + std::to_string(w) + " card into a used " + std::to_string(k2) + "x" + std::to_string(w2) + " card failed");
				else if (o1.str() != o2.str() || !(used == cr.c)) violate("C11", "roundtrip_card_into_used", "card imported into a used " + std::to_string(k2) + "x" + std::to_string(w2) + " card differs from the exported one");
				if (res.ok())
				{
					TMCG_CardSecret cs0(k, w), csu(k2, w2); S.single_party = 0; tmcg.TMCG_CreateCardSecret(cs0, ring, 0);
					std::ostringstream s1; s1 << cs0; std::istringstream in2(s1.str() + "\n"); in2 >> csu; std::ostringstream s2; s2 << csu;
					if (!in2.good() && !in2.eof()) violate("C11", "import_refused_cardsecret_into_used", "re-import of an exported card secret into a used " + std::to_string(k2) + "x" + std::to_string(w2) + " card secret failed");
					else if (s1.str() != s2.str()) violate("C11", "roundtrip_cardsecret_into_used", "card secret imported into a used object differs from the exported one");
				}
				if (!res.ok()) break;
			}
			size_t t = open(cr.c); res.cnt["probe.cards_opened"]++;
			if (t != cr.type) violate("C01", "wrong_type_opened", "card created with type " + std::to_string(cr.type) + " and masked " + std::to_string(cr.masked) + " times opens to " + std::to_string(t));
		}
		else if (op.kind == "stack")
		{
			StackRec s; size_t n = (size_t)std::max<int64_t>(1, std::min<int64_t>(16, op.arg(0))); uint64_t bits = (uint64_t)op.arg(1);
			for (size_t i = 0; i < n; i++)
			{
				size_t t = (size_t)((bits >> (3 * (i % 7))) + i * (bits & 3)) % maxtype;
				TMCG_Card c(k, w); tmcg.TMCG_CreateOpenCard(c, ring, t); s.s.push(c); s.types.push_back(t);
			}
			stacks.push_back(s);
		}
		else if (op.kind == "mix")
		{
			if (stacks.empty()) continue;
			size_t j = (size_t)op.arg(0) % k; StackRec &sr = stacks[(size_t)op.arg(1) % stacks.size()];
			size_t n = sr.s.size(); bool cyclic = op.arg(2) != 0 && n >= 2;
			S.single_party = (int)j;
			TMCG_StackSecret<TMCG_CardSecret> ss; TMCG_Stack<TMCG_Card> out;
			size_t off = tmcg.TMCG_CreateStackSecret(ss, cyclic, ring, j, n);
			std::vector<bool> seen(n, false); bool bij = (ss.size() == n);
			for (size_t i = 0; i < ss.size() && bij; i++) { if (ss[i].first >= n || seen[ss[i].first]) bij = false; else seen[ss[i].first] = true; }
			if (!bij) { violate("C02", "secret_not_bijective", "freshly generated stack secret is not a bijection"); break; }
			if (cyclic) for (size_t i = 0; i < n; i++) if (ss[(i + off) % n].first != i) { violate("C02", "rotation_offset_wrong", "rotation secret does not shift by the reported offset"); break; }
			if (!res.ok()) break;
			// the output object is sometimes one that was used before and still holds other (and more) cards
			if ((op.arg(1) + (int64_t)oi) % 3 == 0) { const StackRec &old = stacks[(size_t)(op.arg(1) + 1) % stacks.size()]; out = old.s; for (size_t q = 0; q < 2 && q < old.s.size(); q++) out.push(old.s[q]); res.cnt["probe.mix_into_used_stack"]++; }
			tmcg.TMCG_MixStack(sr.s, out, ss, ring, tap);
			if (out.size() != n) { violate("C02", "mix_changes_size", "mixed stack has another size (" + std::to_string(out.size()) + " instead of " + std::to_string(n) + ")"); break; }
			std::vector<size_t> nt(n); for (size_t i = 0; i < n; i++) nt[i] = sr.types[ss[i].first];
			sr.s = out; sr.types = nt; res.cnt[cyclic ? "probe.rotations" : "probe.shuffles"]++;
			// export/import of the secret (C11 wire monitor) and refusal of a repeated index
			std::ostringstream o1; o1 << ss; TMCG_StackSecret<TMCG_CardSecret> imp;
			if (!imp.import(o1.str())) violate("C11", "import_refused_stacksecret", "re-import of an exported stack secret failed");
			else { std::ostringstream o2; o2 << imp; if (o1.str() != o2.str()) violate("C11", "roundtrip_text_stacksecret", "stack secret changes under export/import"); }
			if (n >= 2 && res.ok())
			{
				TMCG_StackSecret<TMCG_CardSecret> bad; size_t a = (size_t)op.arg(1) % n, b = (a + 1 + (size_t)op.arg(0) % (n - 1)) % n;
				for (size_t i = 0; i < n; i++) bad.push(i == a ? ss[b].first : ss[i].first, ss[i].second);
				std::ostringstream ob; ob << bad; TMCG_StackSecret<TMCG_CardSecret> imp2;
				res.cnt["fault.nonbijective_secret_import"]++;
				if (imp2.import(ob.str())) violate("C02", "import_accepts_non_bijection", "stack secret with a repeated index was accepted on import");
			}
		}
		else if (op.kind == "openstack")
		{
			if (stacks.empty()) continue;
			const StackRec &sr = stacks[(size_t)op.arg(0) % stacks.size()];
			for (size_t i = 0; i < sr.s.size() && res.ok(); i++)
			{
				size_t t = open(sr.s[i]);
				if (t != sr.types[i]) violate("C02", "mixed_stack_wrong_type", "position " + std::to_string(i) + " of a stack of " + std::to_string(sr.s.size()) + " cards opens to type " + std::to_string(t) + ", the reference model says " + std::to_string(sr.types[i]));
			}
			res.cnt["probe.stacks_opened"]++;
		}
	}
	res.fingerprint = S.hist.h ^ derive(plan.seed, 11); res.steps = plan.ops.size(); res.nontrivial = true;
	return res;
}

int main(int argc, char **argv)
{
	Scenario sc;
	sc.name = "qrcards";
	sc.real_components = "src/SchindelhauerTMCG.cc (quadratic-residuosity encoding: TMCG_CreateOpenCard/PrivateCard/CardSecret, TMCG_MaskCard, TMCG_SelfCardSecret, TMCG_TypeOfCard, TMCG_CreateStackSecret, TMCG_MixStack), TMCG_Card/CardSecret/Stack/StackSecret, TMCG_SecretKey/PublicKey (Rabin keys), mpz_sqrtm; the interactive proofs of this encoding: TMCG_ProveCardSecret/VerifyCardSecret (quadratic residue / non-residue proofs), TMCG_ProveMaskCard/VerifyMaskCard (mask-value and mask-one proofs), TMCG_ProveStackEquality/VerifyStackEquality for TMCG_Card stacks (cut and choose)";
	sc.stub_components = "entropy (seeded PRNG behind the libgcrypt random entry points); openings in the plain ops use each player's own secret key; the proof ops run prover and verifier as two tasks over the simulated stream pair (seeded fragmentation, relaying man-in-the-middle)";
	sc.rule = "one case = k=2..5 players with Rabin keys from a pool of six, w=1..8 type bits, timing protection on/off, a generated script of open and private cards, masking chains by any players, stacks with repeated types, shuffles and rotations by any players, openings of cards and of whole stacks compared with a reference model; proof ops: verified opening of a card by an observer (one opening proof per other player), masking with proof, shuffle / rotation with cut-and-choose proof, each honest (must be accepted), with a false statement on the verifier's side (another output card, one component multiplied by the non-residue y, one stack position replaced by a masking of another input card; security parameter 32) or with one prover line altered in transit (+1 on a number of the line; a clean run from the same coins locates the line); distinct = fingerprint of the script";
	sc.generate = qr_generate; sc.execute = qr_execute; sc.worker_init = qr_init;
	return runner_main(argc, argv, sc);
}
