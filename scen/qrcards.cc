// Scenario qrcards (C01, C02 for the quadratic-residuosity card encoding of Schindelhauer): k players
// with Rabin keys, masking chains and shuffles by any players, openings compared with a reference
// model.  No transport is simulated here: each player's opening bits are computed with its own secret
// key (TMCG_SelfCardSecret), i.e. the verified opening information of all k players.
#include "common.hh"
#include <memory>

using namespace sim;

namespace {

static std::vector<TMCG_SecretKey*> g_sk;

static void qr_init(const Tier &)
{
	if (!g_sk.empty()) return;
	Sim S(0x9a4d5001ULL, 2); S.single_party = 0; CerrCapture cap;
	for (int i = 0; i < 6; i++)
	{
		std::ostringstream n; n << "P" << i;
		g_sk.push_back(new TMCG_SecretKey(n.str(), "p@example.org", (i % 2) ? 768 : 640, false));
	}
}

} // namespace

static Plan qr_generate(uint64_t seed, const Tier &tier)
{
	Plan p; p.seed = seed; p.property = tier.property.empty() ? "C01" : tier.property;
	Rng g(derive(seed, 1));
	int k = (int)g.range(2, 5);
	p.cfg["k"] = k; p.cfg["w"] = g.chance(1, 6) ? (int64_t)g.range(5, 8) : (int64_t)g.range(1, 4);
	p.cfg["tap"] = g.chance(1, 2); p.cfg["keys"] = (int64_t)g.below(720);
	int nops = (int)g.range(3, tier.thorough ? 20 : 12);
	p.ops.push_back(Op("card", (int64_t)g.below(256), g.chance(1, 3) ? (int64_t)g.below(k) : -1));
	p.ops.push_back(Op("stack", (int64_t)g.range(1, 10), (int64_t)g.below(1 << 20)));
	for (int i = 0; i < nops; i++)
	{
		unsigned c = (unsigned)g.below(100);
		if (c < 15) p.ops.push_back(Op("card", (int64_t)g.below(256), g.chance(1, 3) ? (int64_t)g.below(k) : -1));
		else if (c < 45) p.ops.push_back(Op("mask", (int64_t)g.below(k), (int64_t)g.below(64)));
		else if (c < 60) p.ops.push_back(Op("open", (int64_t)g.below(64)));
		else if (c < 68) p.ops.push_back(Op("stack", (int64_t)g.range(1, 10), (int64_t)g.below(1 << 20)));
		else if (c < 88) p.ops.push_back(Op("mix", (int64_t)g.below(k), (int64_t)g.below(16), g.chance(2, 5) ? 1 : 0));
		else p.ops.push_back(Op("openstack", (int64_t)g.below(16)));
	}
	p.ops.push_back(Op("open", (int64_t)g.below(64)));
	p.ops.push_back(Op("openstack", (int64_t)g.below(16)));
	return p;
}

static RunResult qr_execute(const Plan &plan)
{
	RunResult res;
	Sim S(plan.seed, 8); S.single_party = 0;
	CerrCapture cap;
	size_t k = (size_t)std::max<int64_t>(2, std::min<int64_t>(6, plan.get("k", 2)));
	size_t w = (size_t)std::max<int64_t>(1, std::min<int64_t>(TMCG_MAX_TYPEBITS, plan.get("w", 2)));
	size_t maxtype = (size_t)1 << w;
	bool tap = plan.get("tap", 1) != 0;
	// choose k keys from the pool (seeded order)
	std::vector<size_t> idx; for (size_t i = 0; i < g_sk.size(); i++) idx.push_back(i);
	uint64_t ks = (uint64_t)plan.get("keys", 0);
	for (size_t i = 0; i + 1 < idx.size(); i++) { size_t j = i + ks % (idx.size() - i); ks /= (idx.size() - i); std::swap(idx[i], idx[j]); }
	TMCG_PublicKeyRing ring(k);
	std::vector<TMCG_SecretKey*> sk;
	for (size_t i = 0; i < k; i++) { sk.push_back(g_sk[idx[i]]); ring.keys[i] = TMCG_PublicKey(*sk[i]); }
	SchindelhauerTMCG tmcg(4, k, w);
	struct CardRec { TMCG_Card c; size_t type; size_t masked; };
	struct StackRec { TMCG_Stack<TMCG_Card> s; std::vector<size_t> types; };
	std::vector<CardRec> cards; std::vector<StackRec> stacks;
	auto violate = [&](const std::string &prop, const std::string &cls, const std::string &d)
	{
		std::ostringstream c; c << " [QR encoding, k=" << k << " w=" << w << " tap=" << tap << "]";
		res.violate(prop, cls, "qrcards:" + cls, d + c.str());
	};
	auto open = [&](const TMCG_Card &c) -> size_t
	{
		TMCG_CardSecret cs(k, w);
		for (size_t p = 0; p < k; p++) { S.single_party = (int)p; tmcg.TMCG_SelfCardSecret(c, cs, *sk[p], p); }
		return tmcg.TMCG_TypeOfCard(cs);
	};
	for (size_t oi = 0; oi < plan.ops.size() && res.ok(); oi++)
	{
		const Op &op = plan.ops[oi];
		S.hist.add(H_OP, oi, op.arg(0), op.arg(1));
		if (op.kind == "card")
		{
			CardRec r; r.c = TMCG_Card(k, w); r.type = (size_t)op.arg(0) % maxtype; r.masked = 0;
			if (op.arg(1) >= 0)
			{
				TMCG_CardSecret cs(k, w); size_t j = (size_t)op.arg(1) % k; S.single_party = (int)j;
				tmcg.TMCG_CreatePrivateCard(r.c, cs, ring, j, r.type); r.masked = 1; res.cnt["probe.private_cards"]++;
			}
			else tmcg.TMCG_CreateOpenCard(r.c, ring, r.type);
			cards.push_back(r);
		}
		else if (op.kind == "mask")
		{
			if (cards.empty()) continue;
			size_t j = (size_t)op.arg(0) % k; CardRec &cr = cards[(size_t)op.arg(1) % cards.size()];
			S.single_party = (int)j;
			TMCG_CardSecret cs(k, w); TMCG_Card cc(k, w);
			tmcg.TMCG_CreateCardSecret(cs, ring, j);
			tmcg.TMCG_MaskCard(cr.c, cc, cs, ring, tap);
			cr.c = cc; cr.masked++; res.cnt["probe.maskings"]++;
		}
		else if (op.kind == "open")
		{
			if (cards.empty()) continue;
			const CardRec &cr = cards[(size_t)op.arg(0) % cards.size()];
			size_t t = open(cr.c); res.cnt["probe.cards_opened"]++;
			if (t != cr.type) violate("C01", "wrong_type_opened", "card created with type " + std::to_string(cr.type) + " and masked " + std::to_string(cr.masked) + " times opens to " + std::to_string(t));
		}
		else if (op.kind == "stack")
		{
			StackRec s; size_t n = (size_t)std::max<int64_t>(1, std::min<int64_t>(16, op.arg(0))); uint64_t bits = (uint64_t)op.arg(1);
			for (size_t i = 0; i < n; i++)
			{
				size_t t = (size_t)((bits >> (3 * (i % 7))) + i * (bits & 3)) % maxtype;
				TMCG_Card c(k, w); tmcg.TMCG_CreateOpenCard(c, ring, t); s.s.push(c); s.types.push_back(t);
			}
			stacks.push_back(s);
		}
		else if (op.kind == "mix")
		{
			if (stacks.empty()) continue;
			size_t j = (size_t)op.arg(0) % k; StackRec &sr = stacks[(size_t)op.arg(1) % stacks.size()];
			size_t n = sr.s.size(); bool cyclic = op.arg(2) != 0 && n >= 2;
			S.single_party = (int)j;
			TMCG_StackSecret<TMCG_CardSecret> ss; TMCG_Stack<TMCG_Card> out;
			size_t off = tmcg.TMCG_CreateStackSecret(ss, cyclic, ring, j, n);
			std::vector<bool> seen(n, false); bool bij = (ss.size() == n);
			for (size_t i = 0; i < ss.size() && bij; i++) { if (ss[i].first >= n || seen[ss[i].first]) bij = false; else seen[ss[i].first] = true; }
			if (!bij) { violate("C02", "secret_not_bijective", "freshly generated stack secret is not a bijection"); break; }
			if (cyclic) for (size_t i = 0; i < n; i++) if (ss[(i + off) % n].first != i) { violate("C02", "rotation_offset_wrong", "rotation secret does not shift by the reported offset"); break; }
			if (!res.ok()) break;
			tmcg.TMCG_MixStack(sr.s, out, ss, ring, tap);
			if (out.size() != n) { violate("C02", "mix_changes_size", "mixed stack has another size"); break; }
			std::vector<size_t> nt(n); for (size_t i = 0; i < n; i++) nt[i] = sr.types[ss[i].first];
			sr.s = out; sr.types = nt; res.cnt[cyclic ? "probe.rotations" : "probe.shuffles"]++;
			// export/import of the secret (C11 wire monitor) and refusal of a repeated index
			std::ostringstream o1; o1 << ss; TMCG_StackSecret<TMCG_CardSecret> imp;
			if (!imp.import(o1.str())) violate("C11", "import_refused_stacksecret", "re-import of an exported stack secret failed");
			else { std::ostringstream o2; o2 << imp; if (o1.str() != o2.str()) violate("C11", "roundtrip_text_stacksecret", "stack secret changes under export/import"); }
			if (n >= 2 && res.ok())
			{
				TMCG_StackSecret<TMCG_CardSecret> bad; size_t a = (size_t)op.arg(1) % n, b = (a + 1 + (size_t)op.arg(0) % (n - 1)) % n;
				for (size_t i = 0; i < n; i++) bad.push(i == a ? ss[b].first : ss[i].first, ss[i].second);
				std::ostringstream ob; ob << bad; TMCG_StackSecret<TMCG_CardSecret> imp2;
				res.cnt["fault.nonbijective_secret_import"]++;
				if (imp2.import(ob.str())) violate("C02", "import_accepts_non_bijection", "stack secret with a repeated index was accepted on import");
			}
		}
		else if (op.kind == "openstack")
		{
			if (stacks.empty()) continue;
			const StackRec &sr = stacks[(size_t)op.arg(0) % stacks.size()];
			for (size_t i = 0; i < sr.s.size() && res.ok(); i++)
			{
				size_t t = open(sr.s[i]);
				if (t != sr.types[i]) violate("C02", "mixed_stack_wrong_type", "position " + std::to_string(i) + " of a stack of " + std::to_string(sr.s.size()) + " cards opens to type " + std::to_string(t) + ", the reference model says " + std::to_string(sr.types[i]));
			}
			res.cnt["probe.stacks_opened"]++;
		}
	}
	res.fingerprint = S.hist.h ^ derive(plan.seed, 11); res.steps = plan.ops.size(); res.nontrivial = true;
	return res;
}

int main(int argc, char **argv)
{
	Scenario sc;
	sc.name = "qrcards";
	sc.real_components = "src/SchindelhauerTMCG.cc (quadratic-residuosity encoding: TMCG_CreateOpenCard/PrivateCard/CardSecret, TMCG_MaskCard, TMCG_SelfCardSecret, TMCG_TypeOfCard, TMCG_CreateStackSecret, TMCG_MixStack), TMCG_Card/CardSecret/Stack/StackSecret, TMCG_SecretKey/PublicKey (Rabin keys), mpz_sqrtm";
	sc.stub_components = "entropy (seeded PRNG behind the libgcrypt random entry points); no transport: every player's opening bits are computed with that player's secret key (the interactive residuosity proofs are not run here)";
	sc.rule = "one case = k=2..5 players with Rabin keys from a pool of six, w=1..8 type bits, timing protection on/off, a generated script of open and private cards, masking chains by any players, stacks with repeated types, shuffles and rotations by any players, openings of cards and of whole stacks compared with a reference model; distinct = fingerprint of the script";
	sc.generate = qr_generate; sc.execute = qr_execute; sc.worker_init = qr_init;
	return runner_main(argc, argv, sc);
}
