// Scenario aio (C13): point-to-point channels over simulated file descriptors.
// Real: aiounicast_select.cc, aiounicast_nonblock.cc, libgcrypt MAC/cipher/KDF.
// Stub: the kernel (pipes, select, clock, sleep).
#include <libTMCG.hh>
#include <aiounicast_select.hh>
#include <aiounicast_nonblock.hh>
#include "runner.hh"
#include "simfd.hh"
#include <memory>
#include <algorithm>
#include <errno.h>

using namespace sim;

namespace {

struct Frame
{
	std::string bytes;      // as written by the sender (possibly tampered afterwards)
	size_t released;        // bytes already made visible to the reader
	int kind;               // 0 IV, 1 message frame (line + tag)
	long msg_index;         // index into the link's sent list (message frames), -1 otherwise
	Frame() : released(0), kind(1), msg_index(-1) {}
};

struct Link
{
	size_t src, dst;
	SimPipe *pipe;
	std::deque<Frame> frames;           // not yet fully released
	std::vector<std::string> sent;      // values whose Send returned true (hex)
	std::vector<bool> sent_ok;          // parallel: Send returned true
	std::vector<std::string> frame_of_msg; // wire bytes of each message frame (confidentiality)
	std::vector<std::string> delivered; // values returned by Receive for this link
	bool tamper_body, tamper_iv, tamper_frame, send_failed, eof, closed_by_sender;
	bool iv_flip, iv_insdel, body_other; int iv_delta; // IV frame: flips, insertions/deletions and their net length change
	size_t array_len;                   // 0: single integers, >0 arrays of that length
	bool collecting;                    // harness is inside a Send call on this link
	std::string cur;                    // bytes of the Send call in progress
	bool iv_seen;
	Link() : src(0), dst(0), pipe(NULL), tamper_body(false), tamper_iv(false), tamper_frame(false), iv_flip(false), iv_insdel(false), body_other(false), iv_delta(0),
		send_failed(false), eof(false), closed_by_sender(false), array_len(0), collecting(false), iv_seen(false) {}
	size_t unreleased() const
	{
		size_t c = 0;
		for (size_t i = 0; i < frames.size(); i++) c += frames[i].bytes.size() - frames[i].released;
		return c;
	}
};

struct World
{
	const Plan &plan;
	Sim S;
	FdTable fdt;
	size_t n;
	bool nonblock, auth, enc, chunked;
	size_t maclen, blklen;
	std::vector<std::unique_ptr<aiounicast> > P;
	std::vector<std::vector<Link> > L;  // [src][dst]
	RunResult res;
	uint64_t uniq;
	CerrCapture cap;
	World(const Plan &p) : plan(p), S(p.seed, 8), n(2), nonblock(false), auth(true), enc(true), chunked(false),
		maclen(0), blklen(0), uniq(0) {}
	void violate(const std::string &cls, const std::string &d) { res.violate("C13", cls, "aio:" + cls, d); }
};

// release up to k bytes of the link's pending wire bytes to the reader (k == 0: everything)
static size_t release(World &W, Link &l, size_t k)
{
	size_t c = 0;
	while (!l.frames.empty() && (k == 0 || c < k))
	{
		Frame &f = l.frames.front();
		size_t avail = f.bytes.size() - f.released;
		size_t take = (k == 0) ? avail : std::min(avail, k - c);
		for (size_t i = 0; i < take; i++)
			l.pipe->vis.push_back((unsigned char)f.bytes[f.released + i]);
		f.released += take; c += take;
		if (f.released == f.bytes.size()) l.frames.pop_front();
	}
	if (l.closed_by_sender && l.frames.empty())
		l.pipe->wclosed = true;
	W.S.hist.add(H_IO, 20, l.src * 16 + l.dst, c);
	return c;
}

static std::string value_for(World &W, int cls, size_t src, size_t dst)
{
	// every value is unique per run: the low 40 bits carry a counter and the link
	mpz_t v; mpz_init(v);
	uint64_t ctr = ++W.uniq;
	Rng &g = W.S.gen;
	switch (cls % 8)
	{
		case 0: mpz_set_ui(v, 0); break;
		case 1: mpz_set_ui(v, 1); break;
		case 2: mpz_set_ui(v, g.below(1000)); break;
		case 3: { size_t bits = 64 + g.below(2000); mpz_set_ui(v, 1); mpz_mul_2exp(v, v, bits);
			for (int i = 0; i < 4; i++) { mpz_mul_2exp(v, v, 0); mpz_add_ui(v, v, g.next() >> 8); } break; }
		case 4: mpz_set_ui(v, 4242424242UL); break; // the array delimiter value
		// large values; a quarter of them around and above the largest value Send accepts (2047 base-62 digits, about
		// 12188 bits): an accepted one has to arrive like any other, a refused one is a refused Send
		case 5: { size_t bits = (g.below(4) == 0) ? 11900 + g.below(13000) : 7000 + g.below(4000); mpz_set_ui(v, 1); mpz_mul_2exp(v, v, bits); mpz_sub_ui(v, v, g.below(1000)); break; }
		case 6: mpz_set_ui(v, 61 + g.below(3)); break;
		case 7: { unsigned char b[40]; g.fill(b, sizeof(b)); mpz_import(v, sizeof(b), 1, 1, 1, 0, b); break; }
	}
	// make unique (except the special small classes when they are asked for verbatim)
	if ((cls % 8) == 3 || (cls % 8) == 5 || (cls % 8) == 7 || (cls % 8) == 2)
	{
		mpz_mul_2exp(v, v, 48);
		mpz_add_ui(v, v, (unsigned long)((ctr << 8) | (src << 4) | dst));
	}
	std::string s; { char *c = mpz_get_str(NULL, 16, v); s = c; free(c); }
	mpz_clear(v);
	return s;
}

static void do_send(World &W, size_t src, size_t dst, int cls, const Op &op)
{
	Link &l = W.L[src][dst];
	if (l.send_failed || l.closed_by_sender) return; // a link whose Send failed half-way is not used any more
	W.S.single_party = (int)src;
	size_t cnt = l.array_len ? l.array_len : 1;
	std::vector<std::string> vals;
	std::vector<mpz_ptr> ms; std::vector<mpz_srcptr> cms;
	for (size_t k = 0; k < cnt; k++)
	{
		vals.push_back(value_for(W, cls + (int)k, src, dst));
		mpz_ptr m = new mpz_t(); mpz_init(m); mpz_set_str(m, vals.back().c_str(), 16);
		ms.push_back(m); cms.push_back(m);
	}
	// scripted outcomes of the write calls of this Send (short writes, EAGAIN, EINTR)
	for (size_t k = 0; k < op.a.size() && k < 12; k++)
		if (k >= 3 && op.a[k] != 0)
		{
			l.pipe->write_script.push_back((int)op.a[k]);
			W.res.cnt[op.a[k] > 0 ? "fault.short_write" : (op.a[k] == -EINTR ? "fault.eintr_write" : "fault.eagain_write")]++;
		}
	size_t frames_before = l.frames.size();
	(void)frames_before;
	l.collecting = true; l.cur.clear();
	size_t nframes_before = l.frame_of_msg.size();
	bool ok;
	std::vector<size_t> boundaries;
	if (l.array_len == 0)
		ok = W.P[src]->Send(cms[0], dst, 5);
	else
		ok = W.P[src]->Send(cms, dst, 5);
	l.collecting = false;
	l.pipe->write_script.clear();
	// split what was written into IV (first blklen bytes of the link, encrypted mode) and frames
	std::string w = l.cur;
	if (W.enc && !l.iv_seen && !W.chunked && w.size() >= W.blklen)
	{
		Frame f; f.kind = 0; f.bytes = w.substr(0, W.blklen); l.frames.push_back(f);
		w.erase(0, W.blklen); l.iv_seen = true;
	}
	else if (W.enc && !l.iv_seen && W.chunked)
		l.iv_seen = true; // chunked mode derives the nonce from the key, no IV on the wire
	// frames: line up to '\n' followed by maclen raw bytes
	size_t pos = 0; size_t k = 0;
	while (pos < w.size())
	{
		size_t nl = w.find('\n', pos);
		Frame f; f.kind = 1;
		if (nl == std::string::npos || nl + 1 + W.maclen > w.size())
		{
			f.bytes = w.substr(pos); pos = w.size(); // partial frame (failed Send)
		}
		else
		{
			f.bytes = w.substr(pos, nl + 1 + W.maclen - pos); pos = nl + 1 + W.maclen;
			if (k < vals.size()) { f.msg_index = (long)(l.sent.size() + k); }
			k++;
		}
		l.frames.push_back(f);
		if (f.msg_index >= 0) l.frame_of_msg.push_back(f.bytes);
	}
	(void)nframes_before;
	if (ok)
	{
		for (size_t i = 0; i < vals.size(); i++) { l.sent.push_back(vals[i]); l.sent_ok.push_back(true); }
		W.res.cnt["probe.sends_ok"]++;
		// confidentiality clause
		if (W.enc)
		{
			for (size_t i = 0; i < vals.size(); i++)
			{
				mpz_t v; mpz_init(v); mpz_set_str(v, vals[i].c_str(), 16);
				char *b62 = mpz_get_str(NULL, 62, v);
				std::string digits = b62; free(b62); mpz_clear(v);
				if (digits.size() >= 8 && w.find(digits) != std::string::npos)
					W.violate("confidentiality_digits", "base-62 digits of the integer appear on the wire of link " +
						std::to_string(src) + "->" + std::to_string(dst));
			}
		}
	}
	else
	{
		l.send_failed = true;
		W.res.cnt["probe.sends_failed"]++;
		// The elements of an array that were framed completely before a later element was refused are on the wire
		// with valid tags: they stay in the model as sent (a receiver may deliver them, e.g. when an array boundary
		// shifts after a value was lost to IV damage); nothing is asserted about their arrival
		for (size_t i = 0; i < k && i < vals.size(); i++) { l.sent.push_back(vals[i]); l.sent_ok.push_back(false); }
	}
	for (size_t k2 = 0; k2 < ms.size(); k2++) { mpz_clear(ms[k2]); delete [] ms[k2]; }
	W.S.hist.add(H_OP, 10, src * 16 + dst, ok ? 1 : 0);
}

static void check_delivery(World &W, size_t dst, size_t src, const std::vector<std::string> &got)
{
	Link &l = W.L[src][dst];
	for (size_t k = 0; k < got.size(); k++)
	{
		const std::string &v = got[k];
		size_t idx = l.delivered.size();
		std::ostringstream where; where << "link " << src << "->" << dst << " delivery #" << idx << " value=" << v.substr(0, 40)
			<< " modes: " << (W.nonblock ? "nonblock" : "select") << (W.auth ? " auth" : "") << (W.enc ? " enc" : "") << (W.chunked ? " chunked" : "");
		W.S.hist.add_str(H_RESULT, v);
		bool benign = !(l.tamper_body || l.tamper_iv || l.tamper_frame || l.send_failed);
		if (benign)
		{
			if (idx >= l.sent.size() || l.sent[idx] != v)
			{
				std::string cls = "fifo_exactly_once";
				if (std::find(l.sent.begin(), l.sent.end(), v) == l.sent.end()) cls = "corrupted_value";
				else if (std::find(l.delivered.begin(), l.delivered.end(), v) != l.delivered.end()) cls = "duplicate";
				W.violate(cls, "expected " + (idx < l.sent.size() ? l.sent[idx].substr(0, 40) : std::string("<nothing pending>")) + "; " + where.str());
				return;
			}
		}
		else if (W.auth && !W.chunked && (l.tamper_body || l.tamper_frame || l.send_failed))
		{
			// authenticated stream mode: nothing forged, nothing after the damage -> prefix of sent
			// (IV-only damage may lose values: sub-sequence in order)
			if (l.tamper_iv)
			{
				size_t from = 0;
				if (!l.delivered.empty())
				{
					std::vector<std::string>::iterator it = std::find(l.sent.begin(), l.sent.end(), l.delivered.back());
					from = (it == l.sent.end()) ? 0 : (size_t)(it - l.sent.begin()) + 1;
				}
				if (std::find(l.sent.begin() + from, l.sent.end(), v) == l.sent.end())
				{ W.violate("auth_forged_or_reordered", where.str()); return; }
			}
			else if (idx >= l.sent.size() || l.sent[idx] != v)
			{ W.violate("auth_not_prefix", "delivered sequence is not a prefix of the sent one under wire tampering; " + where.str()); return; }
		}
		else if (W.auth && !W.chunked && l.tamper_iv)
		{
			size_t from = 0;
			if (!l.delivered.empty())
			{
				std::vector<std::string>::iterator it = std::find(l.sent.begin(), l.sent.end(), l.delivered.back());
				from = (it == l.sent.end()) ? 0 : (size_t)(it - l.sent.begin()) + 1;
			}
			if (std::find(l.sent.begin() + from, l.sent.end(), v) == l.sent.end())
			{ W.violate("auth_iv_subsequence", "value not sent or out of order after IV tampering; " + where.str()); return; }
		}
		else if (W.auth && W.chunked)
		{
			if (std::find(l.sent.begin(), l.sent.end(), v) == l.sent.end())
			{ W.violate("auth_integrity_chunked", "delivered value was never sent; " + where.str()); return; }
		}
		// no authentication + tampering: nothing asserted
		l.delivered.push_back(v);
		W.res.cnt["probe.deliveries"]++;
	}
}

static bool do_recv(World &W, size_t dst, int sched, size_t direct_i, const Op *op)
{
	W.S.single_party = (int)dst;
	size_t sch = (sched % 3 == 0) ? aiounicast::aio_scheduler_roundrobin :
		((sched % 3 == 1) ? aiounicast::aio_scheduler_random : aiounicast::aio_scheduler_direct);
	size_t i_out = direct_i % W.n;
	// arrays are received in the shape they are sent on the link (all links into dst share it)
	size_t alen = W.L[0][dst].array_len;
	if (op)
		for (size_t k = 3; k < op->a.size() && k < 10; k++)
			if (op->a[k] != 0)
			{
				size_t from = (sch == aiounicast::aio_scheduler_direct) ? i_out : (size_t)(W.S.fault.below(W.n));
				W.L[from][dst].pipe->read_script.push_back((int)op->a[k]);
				W.res.cnt[op->a[k] > 0 ? "fault.short_read" : (op->a[k] == -EINTR ? "fault.eintr_read" : "fault.eagain_read")]++;
			}
	bool ok;
	std::vector<std::string> got;
	if (alen == 0)
	{
		mpz_t m; mpz_init(m);
		ok = W.P[dst]->Receive(m, i_out, sch, 0);
		if (ok) { char *c = mpz_get_str(NULL, 16, m); got.push_back(c); free(c); }
		mpz_clear(m);
	}
	else
	{
		std::vector<mpz_ptr> ms;
		for (size_t k = 0; k < alen; k++) { mpz_ptr m = new mpz_t(); mpz_init(m); ms.push_back(m); }
		ok = W.P[dst]->Receive(ms, i_out, sch, 0);
		if (ok) for (size_t k = 0; k < alen; k++) { char *c = mpz_get_str(NULL, 16, ms[k]); got.push_back(c); free(c); }
		for (size_t k = 0; k < alen; k++) { mpz_clear(ms[k]); delete [] ms[k]; }
	}
	for (size_t s = 0; s < W.n; s++) W.L[s][dst].pipe->read_script.clear();
	W.S.hist.add(H_OP, 11, dst, ok ? i_out + 1 : 0);
	if (ok)
	{
		if (i_out >= W.n) { W.violate("bad_sender_index", "Receive returned true with sender index >= n"); return true; }
		check_delivery(W, dst, i_out, got);
	}
	return ok;
}

static void tamper(World &W, const Op &op)
{
	// f_flip/f_ins/f_del l off ; f_fdrop/f_fdup/f_fswap/f_freplay l k ; offsets are interpreted modulo
	std::vector<size_t> nonempty;
	for (size_t q = 0; q < W.n * W.n; q++)
		if (!W.L[q / W.n][q % W.n].frames.empty()) nonempty.push_back(q);
	if (nonempty.empty()) return;
	size_t li = nonempty[(size_t)op.arg(0) % nonempty.size()];
	Link &l = W.L[li / W.n][li % W.n];
	if (op.kind == "f_flip" || op.kind == "f_ins" || op.kind == "f_del")
	{
		size_t fi = (size_t)op.arg(1) % l.frames.size();
		Frame &f = l.frames[fi];
		if (f.released >= f.bytes.size()) return;
		size_t off = f.released + (size_t)op.arg(2) % (f.bytes.size() - f.released);
		// region classification
		bool iv_region = (f.kind == 0);
		if (op.kind == "f_flip") f.bytes[off] = (char)(f.bytes[off] ^ (1 << (op.arg(3) % 8)));
		else if (op.kind == "f_ins") f.bytes.insert(off, 1, (char)(op.arg(3) & 0xff));
		else f.bytes.erase(off, 1);
		// An insertion and a deletion inside the IV that cancel out leave an IV of the right length with other
		// content: IV-only damage like a flipped bit (the first cipher block is lost, the stream re-synchronises).
		// A net length change shifts the whole stream: damage of the body.
		if (iv_region && op.kind == "f_flip") l.iv_flip = true;
		else if (iv_region) { l.iv_insdel = true; l.iv_delta += (op.kind == "f_ins") ? 1 : -1; }
		else l.body_other = true;
		// (a net length change of the IV moves the boundary between IV and first frame by some octets: the first
		// value is lost as well, later frames are found again at their line ends - still damage of the IV only)
		l.tamper_iv = l.iv_flip || l.iv_insdel;
		l.tamper_body = l.body_other;
		W.res.cnt["fault." + op.kind.substr(2) + (iv_region ? "_iv" : ((off - 0) < f.bytes.size() - W.maclen ? "_line" : "_tag"))]++;
	}
	else
	{
		// whole frames (only message frames that are still completely unreleased)
		std::vector<size_t> cand;
		for (size_t i = 0; i < l.frames.size(); i++)
			if (l.frames[i].kind == 1 && l.frames[i].released == 0) cand.push_back(i);
		if (cand.empty()) return;
		size_t a = cand[(size_t)op.arg(1) % cand.size()];
		if (op.kind == "f_fdrop") l.frames.erase(l.frames.begin() + a);
		else if (op.kind == "f_fdup") l.frames.insert(l.frames.begin() + a, l.frames[a]);
		else if (op.kind == "f_fswap")
		{
			if (cand.size() < 2) return;
			size_t b = cand[((size_t)op.arg(1) + 1) % cand.size()];
			std::swap(l.frames[a], l.frames[b]);
		}
		else if (op.kind == "f_freplay") l.frames.push_back(l.frames[a]);
		else return;
		l.tamper_frame = true;
		W.res.cnt["fault." + op.kind.substr(2)]++;
	}
	W.S.hist.add(H_FAULT, li, op.arg(1), op.arg(2));
}

} // namespace

static Plan aio_generate(uint64_t seed, const Tier &tier)
{
	Plan p; p.seed = seed; p.property = "C13";
	Rng g(derive(seed, 1));
	int n = (int)g.range(2, 4);
	p.cfg["n"] = n;
	p.cfg["nonblock"] = g.chance(1, 3);
	p.cfg["auth"] = g.chance(7, 8);
	p.cfg["enc"] = g.chance(3, 4);
	p.cfg["chunked"] = (p.cfg["nonblock"] == 0 && p.cfg["enc"] && g.chance(1, 4)) ? 1 : 0;
	p.cfg["arrays"] = g.chance(1, 3) ? (int64_t)g.range(1, 4) : 0; // array length used on all links
	p.cfg["manual"] = g.chance(3, 4); // bytes become visible only by rel ops (fragmentation / delay)
	int fault_mode = (int)g.below(8); // 0..2 none, 3..5 benign (short rw, eintr, eagain), 6 tamper, 7 tamper+benign
	if (tier.opt.count("nofaults")) fault_mode = 0;
	p.cfg["fault_mode"] = fault_mode;
	int nops = (int)g.range(4, tier.thorough ? 90 : 60);
	// rarely a long exchange on one link first: counters of more than one octet (sequence numbers, chunk counters)
	if (g.chance(1, tier.thorough ? 12 : 25)) p.ops.push_back(Op("burst", (int64_t)g.below(n), (int64_t)g.below(n), (int64_t)g.range(257, 330)));
	for (int i = 0; i < nops; i++)
	{
		unsigned c = (unsigned)g.below(100);
		bool benign = (fault_mode >= 3 && fault_mode != 6);
		bool tamp = (fault_mode >= 6);
		if (c < 30)
		{
			Op op("send", (int64_t)g.below(n), (int64_t)g.below(n), (int64_t)g.below(8));
			if (benign && g.chance(1, 3))
				for (int k = 0; k < 4; k++)
				{
					unsigned r = (unsigned)g.below(6);
					op.a.push_back(r < 3 ? (int64_t)g.range(1, 40) : (r == 3 ? -EINTR : (r == 4 ? -EAGAIN : 0)));
				}
			p.ops.push_back(op);
		}
		else if (c < 60)
		{
			Op op("recv", (int64_t)g.below(n), (int64_t)g.below(3), (int64_t)g.below(n));
			if (benign && g.chance(1, 3))
				for (int k = 0; k < 3; k++)
				{
					unsigned r = (unsigned)g.below(6);
					op.a.push_back(r < 3 ? (int64_t)g.range(1, 40) : (r == 3 ? -EINTR : (r == 4 ? -EAGAIN : 0)));
				}
			p.ops.push_back(op);
		}
		else if (c < 88) p.ops.push_back(Op("rel", (int64_t)g.below(16), g.chance(1, 4) ? 0 : (int64_t)g.range(1, 80)));
		else if (c < 90 && benign) p.ops.push_back(Op("f_eintr_select"));
		else if (c < 97 && tamp)
		{
			static const char *k[] = { "f_flip", "f_flip", "f_flip", "f_ins", "f_del", "f_fdrop", "f_fdup", "f_fswap", "f_freplay" };
			p.ops.push_back(Op(k[g.below(9)], (int64_t)g.below(16), (int64_t)g.below(8), (int64_t)g.below(4000), (int64_t)g.below(256)));
		}
		else if (c < 98 && fault_mode >= 3 && g.chance(1, 3)) p.ops.push_back(Op("f_eof", (int64_t)g.below(16)));
		else p.ops.push_back(Op("rel", (int64_t)g.below(16), 0));
	}
	return p;
}

static RunResult aio_execute(const Plan &plan)
{
	World W(plan);
	W.n = (size_t)std::max<int64_t>(2, std::min<int64_t>(4, plan.get("n", 2)));
	W.nonblock = plan.get("nonblock", 0) != 0;
	W.auth = plan.get("auth", 1) != 0;
	W.enc = plan.get("enc", 1) != 0;
	W.chunked = plan.get("chunked", 0) != 0 && !W.nonblock && W.enc;
	bool manual = plan.get("manual", 1) != 0;
	size_t alen = (size_t)plan.get("arrays", 0);
	W.maclen = W.auth ? gcry_mac_get_algo_maclen(TMCG_GCRY_MAC_ALGO) : 0;
	W.blklen = gcry_cipher_get_algo_blklen(TMCG_GCRY_ENC_ALGO);
	W.fdt.activate();
	W.L.resize(W.n);
	for (size_t s = 0; s < W.n; s++)
	{
		W.L[s].resize(W.n);
		for (size_t d = 0; d < W.n; d++)
		{
			Link &l = W.L[s][d];
			l.src = s; l.dst = d; l.array_len = alen;
			l.pipe = W.fdt.make_pipe();
			l.pipe->auto_visible = false;
			Link *lp = &l;
			l.pipe->wire = [lp](SimPipe &, std::string &bytes){ lp->cur += bytes; bytes.clear(); };
		}
	}
	// keys: one shared secret per unordered pair
	for (size_t j = 0; j < W.n; j++)
	{
		std::vector<int> fin, fout; std::vector<std::string> keys;
		for (size_t i = 0; i < W.n; i++)
		{
			fin.push_back(W.L[i][j].pipe->rfd);
			fout.push_back(W.L[j][i].pipe->wfd);
			std::ostringstream k; k << "key-" << std::min(i, j) << "-" << std::max(i, j) << "-" << (plan.seed & 0xffff);
			keys.push_back(k.str());
		}
		W.S.single_party = (int)j;
		if (W.nonblock)
			W.P.push_back(std::unique_ptr<aiounicast>(new aiounicast_nonblock(W.n, j, fin, fout, keys,
				aiounicast::aio_scheduler_roundrobin, aiounicast::aio_timeout_extremely_short, W.auth, W.enc, false)));
		else
			W.P.push_back(std::unique_ptr<aiounicast>(new aiounicast_select(W.n, j, fin, fout, keys,
				aiounicast::aio_scheduler_roundrobin, aiounicast::aio_timeout_extremely_short, W.auth, W.enc, W.chunked)));
	}
	bool any_fault = false;
	for (size_t i = 0; i < plan.ops.size() && W.res.ok(); i++)
	{
		const Op &op = plan.ops[i];
		if (op.kind == "send")
		{
			size_t s = (size_t)op.arg(0) % W.n, d = (size_t)op.arg(1) % W.n;
			do_send(W, s, d, (int)op.arg(2), op);
			if (op.a.size() > 3) any_fault = true;
			if (!manual) release(W, W.L[s][d], 0);
			// equal integers must not give equal frames (encrypted mode)
		}
		else if (op.kind == "burst")
		{
			// many values on one link, handed over and received as they go
			size_t s = (size_t)op.arg(0) % W.n, d = (size_t)op.arg(1) % W.n; size_t cnt = (size_t)std::max<int64_t>(1, std::min<int64_t>(400, op.arg(2)));
			Op plain("send", (int64_t)s, (int64_t)d, 0);
			for (size_t q = 0; q < cnt && W.res.ok(); q++)
			{
				do_send(W, s, d, (int)(q % 8), plain);
				release(W, W.L[s][d], 0);
				if (q % 3 == 2 || q + 1 == cnt) for (int r = 0; r < 4 && W.res.ok(); r++) do_recv(W, d, 2, s, NULL);
			}
			W.res.cnt["probe.bursts"]++;
		}
		else if (op.kind == "recv")
		{
			do_recv(W, (size_t)op.arg(0) % W.n, (int)op.arg(1), (size_t)op.arg(2), &op);
			if (op.a.size() > 3) any_fault = true;
		}
		else if (op.kind == "rel")
		{
			size_t li = (size_t)op.arg(0) % (W.n * W.n);
			size_t c = release(W, W.L[li / W.n][li % W.n], (size_t)op.arg(1));
			if (c) W.res.cnt["probe.releases"]++;
		}
		else if (op.kind == "f_eintr_select") { W.fdt.select_eintr_next = true; W.res.cnt["fault.eintr_select"]++; any_fault = true; }
		else if (op.kind == "f_eof")
		{
			size_t li = (size_t)op.arg(0) % (W.n * W.n);
			Link &l = W.L[li / W.n][li % W.n];
			if (!l.closed_by_sender)
			{
				// the sender goes away: an arbitrary prefix of what is still in flight arrives, then EOF
				size_t pend = l.unreleased();
				size_t keep = pend ? (size_t)W.S.fault.below(pend + 1) : 0;
				release(W, l, keep ? keep : 0);
				if (keep == 0 && pend) { /* nothing more arrives */ }
				l.frames.clear();
				l.closed_by_sender = true; l.pipe->wclosed = true; l.eof = true;
				W.res.cnt["fault.eof"]++; any_fault = true;
			}
		}
		else if (op.is_fault()) { tamper(W, op); any_fault = true; }
	}
	// ---- bounded liveness on undamaged links: hand everything over, then poll
	if (W.res.ok())
	{
		size_t pending_total = 0;
		for (size_t s = 0; s < W.n; s++)
			for (size_t d = 0; d < W.n; d++)
			{
				release(W, W.L[s][d], 0);
				Link &l = W.L[s][d];
				if (!(l.tamper_body || l.tamper_iv || l.tamper_frame || l.send_failed || l.eof))
					pending_total += l.sent.size() - l.delivered.size();
			}
		size_t budget = 12 * (pending_total + W.n * W.n + 4);
		for (size_t d = 0; d < W.n && W.res.ok(); d++)
		{
			for (size_t k = 0; k < budget && W.res.ok(); k++)
			{
				bool open = false;
				for (size_t s = 0; s < W.n; s++)
				{
					Link &l = W.L[s][d];
					if (!(l.tamper_body || l.tamper_iv || l.tamper_frame || l.send_failed || l.eof) && l.delivered.size() < l.sent.size())
						open = true;
				}
				if (!open) break;
				do_recv(W, d, 0, 0, NULL);
			}
		}
		for (size_t s = 0; s < W.n && W.res.ok(); s++)
			for (size_t d = 0; d < W.n && W.res.ok(); d++)
			{
				Link &l = W.L[s][d];
				bool clean = !(l.tamper_body || l.tamper_iv || l.tamper_frame || l.send_failed || l.eof);
				if (clean && l.delivered.size() < l.sent.size() && (l.array_len == 0 || (l.sent.size() - l.delivered.size()) >= l.array_len))
					W.violate("liveness_undelivered", "link " + std::to_string(s) + "->" + std::to_string(d) + ": " +
						std::to_string(l.sent.size() - l.delivered.size()) + " accepted values not received after " +
						std::to_string(budget) + " zero-time-out Receive calls with all bytes handed over");
				// confidentiality: equal integers -> different frames
				if (W.enc && clean)
					for (size_t a = 0; a < l.sent.size() && W.res.ok(); a++)
						for (size_t b = a + 1; b < l.sent.size(); b++)
							if (l.sent[a] == l.sent[b] && a < l.frame_of_msg.size() && b < l.frame_of_msg.size() &&
								l.frame_of_msg[a] == l.frame_of_msg[b])
							{ W.violate("confidentiality_equal_frames", "two sends of one integer gave identical wire frames"); break; }
			}
	}
	std::string err = W.cap.str();
	W.res.cnt["probe.mac_failure"] += count_substr(err, "gcry_mac_verify() failed");
	W.res.cnt["probe.no_prefix_found"] += count_substr(err, "no prefix");
	W.res.cnt["probe.sleeping_path"] += count_substr(err, "sleeping ...");
	W.res.cnt["probe.got_eof"] += count_substr(err, "got EOF");
	W.res.cnt["probe.array_out_of_order"] += count_substr(err, "out of order; discard");
	W.res.cnt["probe.send_timeout"] += count_substr(err, "send timeout");
	for (size_t s = 0; s < W.n; s++) for (size_t d = 0; d < W.n; d++)
	{ W.res.cnt["probe.short_reads"] += W.L[s][d].pipe->n_short_reads; W.res.cnt["probe.read_calls"] += W.L[s][d].pipe->n_read_calls; }
	W.res.fingerprint = W.S.hist.h;
	W.res.steps = plan.ops.size();
	W.res.sim_ms = W.S.now_ms;
	W.res.nontrivial = any_fault || plan.get("manual", 1);
	W.P.clear();
	W.fdt.deactivate();
	return W.res;
}

static void aio_shrink_more(const Plan &plan, std::vector<Plan> &out)
{
	if (plan.get("n", 2) > 2) { Plan q = plan; q.cfg["n"] = plan.get("n", 2) - 1; out.push_back(q); }
	if (plan.get("arrays", 0)) { Plan q = plan; q.cfg["arrays"] = 0; out.push_back(q); }
	if (plan.get("chunked", 0)) { Plan q = plan; q.cfg["chunked"] = 0; out.push_back(q); }
	if (plan.get("manual", 0)) { Plan q = plan; q.cfg["manual"] = 0; out.push_back(q); }
	// drop scripted syscall outcomes from ops
	for (size_t i = 0; i < plan.ops.size(); i++)
		if ((plan.ops[i].kind == "send" || plan.ops[i].kind == "recv") && plan.ops[i].a.size() > 3)
		{ Plan q = plan; q.ops[i].a.resize(3); out.push_back(q); break; }
}

int main(int argc, char **argv)
{
	Scenario sc;
	sc.name = "aio";
	sc.real_components = "src/aiounicast_select.cc, src/aiounicast_nonblock.cc (Send/Receive single and array, framing, encrypt-then-MAC, length hiding), libgcrypt MAC/cipher/PBKDF2, mpz_srandom";
	sc.stub_components = "kernel pipes, read/write/select/fcntl/sleep and the wall clock (SimFd byte pipes with harness-controlled visibility and scripted syscall outcomes); entropy (seeded PRNG behind gcry_* random entry points)";
	sc.rule = "one case = seeded plan over 2..4 parties with a full mesh of simulated pipes and a mode drawn from {select,nonblock} x {auth} x {enc} x {chunked} x {single,array}: send / receive (3 schedulers, time-out 0) / release-k-bytes ops, scripted short reads and writes, EINTR, EAGAIN, EOF with an arbitrary delivered prefix, byte flips/insertions/deletions in IV, line or tag, frame drop/dup/swap/replay; reference model = FIFO of accepted values per link; distinct = history fingerprint; non-trivial = bytes were released in fragments or a fault fired";
	sc.generate = aio_generate;
	sc.execute = aio_execute;
	sc.shrink_more = aio_shrink_more;
	return runner_main(argc, argv, sc);
}
