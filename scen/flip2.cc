// Scenario flip2 (C17, two-party part): JareckiLysyanskayaEDCF::Flip_twoparty between two tasks over a
// simulated stream pair; honest runs in both roles, relay mutations, scripted deviating peer.
#include "common.hh"
#include <JareckiLysyanskayaASTC.hh>

using namespace sim;

static void flip2_init(const Tier &) { build_group_pool(2, false); }

static Plan flip2_generate(uint64_t seed, const Tier &tier)
{
	Plan p; p.seed = seed; p.property = "C17";
	Rng g(derive(seed, 1));
	p.cfg["group"] = (int64_t)g.below(group_pool().size());
	p.cfg["chunked"] = g.chance(1, 2);
	p.cfg["swap_roles"] = g.chance(1, 2);  // which index the first task plays
	unsigned m = (unsigned)g.below(12);
	if (tier.opt.count("nofaults")) m = 0;
	if (m < 4) { }
	else if (m < 7) p.ops.push_back(Op("f_mitm_mut", (int64_t)g.below(2), (int64_t)g.below(3), (int64_t)g.below(2)));
	else if (m < 10) p.ops.push_back(Op("f_byz_peer", (int64_t)g.below(7)));
	else if (m < 11) p.ops.push_back(Op("f_lib_faulty", (int64_t)g.below(2)));
	else p.ops.push_back(Op("f_mitm_drop", (int64_t)g.below(2), (int64_t)g.below(3)));
	return p;
}

static RunResult flip2_execute(const Plan &plan)
{
	RunResult res;
	Sim S(plan.seed, 4);
	CerrCapture cap;
	const Grp &G = group_pool()[(size_t)plan.get("group", 0) % group_pool().size()];
	size_t iA = plan.get("swap_roles", 0) ? 1 : 0, iB = 1 - iA;
	S.single_party = 0;
	JareckiLysyanskayaEDCF eA(2, 0, G.p, G.q, G.g, G.h, G.fs, G.ss), eB(2, 0, G.p, G.q, G.g, G.h, G.fs, G.ss);
	if (!eA.CheckGroup()) { res.violate("C17", "group_rejected", "flip2:group_rejected", "pool group refused"); return res; }
	const Op *fop = NULL;
	for (size_t i = 0; i < plan.ops.size(); i++) if (plan.ops[i].is_fault()) { fop = &plan.ops[i]; break; }
	std::string fk = fop ? fop->kind : "";
	Session ses(S);
	ses.chunked = plan.get("chunked", 0) != 0;
	bool mutated = false; int mdir = 0; size_t midx = 0; int mkind = 0;
	if (fk == "f_mitm_mut" || fk == "f_mitm_drop")
	{
		mdir = (int)(fop->arg(0) % 2); midx = (size_t)fop->arg(1) % 3; mkind = (int)fop->arg(2);
		bool drop = (fk == "f_mitm_drop");
		ses.relay = [&, drop](int dir, size_t idx, const std::string &line, std::vector<std::string> &out)
		{
			std::string m;
			if (dir == mdir && idx == midx)
			{
				if (drop) { mutated = true; res.cnt["fault.mitm_drop"]++; return; }
				if (mutate_int_line(line, mkind, m) && m != line) { out.push_back(m); mutated = true; res.cnt["fault.mitm_mut"]++; return; }
			}
			out.push_back(line);
		};
	}
	Z coinA, coinB;
	std::ostringstream errA, errB;
	bool faultyA = (fk == "f_lib_faulty" && fop->arg(0) == 0), faultyB = (fk == "f_lib_faulty" && fop->arg(0) == 1);
	auto roleA = [&](std::istream &in, std::ostream &out) -> bool { return eA.Flip_twoparty(iA, coinA, in, out, errA, faultyA); };
	auto roleB = [&](std::istream &in, std::ostream &out) -> bool { return eB.Flip_twoparty(iB, coinB, in, out, errB, faultyB); };
	int bk = (fk == "f_byz_peer") ? (int)(fop->arg(0) % 7) : -1;
	size_t byz_lines_read = 0;
	auto byzB = [&](std::istream &in, std::ostream &out) -> bool
	{
		Z a, ha, C, t, u;
		tmcg_mpz_srandomm(a, G.q); tmcg_mpz_srandomm(ha, G.q);
		mpz_powm(t, G.g, a, G.p); mpz_powm(u, G.h, ha, G.p); mpz_mul(C, t, u); mpz_mod(C, C, G.p);
		std::string l;
		if (bk == 0)
		{
			// withhold the commitment: only listen
			while (std::getline(in, l)) byz_lines_read++;
			return true;
		}
		if (bk == 5) { do { tmcg_mpz_wrandomm(C, G.p); mpz_powm(t, C, G.q, G.p); } while (!zcmp_ui(t, 1) || !zcmp_ui(C, 0)); } // commitment outside the group
		out << C.io() << std::endl;
		if (!std::getline(in, l)) return true; // peer's commitment
		byz_lines_read++;
		if (bk == 6)
		{
			// wait for the peer's opening and then choose the own one (cannot match the commitment)
			std::string pa, pha;
			if (std::getline(in, pa) && std::getline(in, pha)) { byz_lines_read += 2; Z x; mpz_set_str(x, pa.c_str(), TMCG_MPZ_IO_BASE); mpz_sub(a, G.q, x); mpz_mod(a, a, G.q); }
		}
		if (bk == 1) mpz_add_ui(a, a, 1);                 // opens to another value
		if (bk == 2) mpz_add_ui(ha, ha, 1);               // wrong randomness
		if (bk == 3) mpz_add(a, a, G.q);                  // representative >= q
		if (bk == 4) { mpz_add_ui(a, a, 1); mpz_sub_ui(ha, ha, 1); } // (a+1, ha-1): only right if h = g
		out << a.io() << std::endl << ha.io() << std::endl;
		while (std::getline(in, l)) byz_lines_read++;
		return true;
	};
	if (bk >= 0) ses.run(0, 1, roleA, byzB); else ses.run(0, 1, roleA, roleB);
	res.cnt["probe.sessions"]++;
	// ---- oracle
	std::vector<const LineRec*> L[2];
	for (size_t i = 0; i < ses.transcript.size(); i++) L[ses.transcript[i].dir].push_back(&ses.transcript[i]);
	std::ostringstream ctx; ctx << "group=" << G.fs << "/" << G.ss << " iA=" << iA << " fault=" << (fop ? fop->kind : "none");
	if (fop) for (size_t k = 0; k < fop->a.size(); k++) ctx << "," << fop->a[k];
	// ordering over the history: nobody opens before having received the peer's whole commitment
	for (int d = 0; d < 2 && res.ok(); d++)
	{
		bool honest_writer = (d == 0) || (bk < 0);
		if (!honest_writer) continue;
		if (L[d].size() >= 2)
		{
			const LineRec *peer_commit = L[1 - d].empty() ? NULL : L[1 - d][0];
			if (!peer_commit || peer_commit->t_received == 0 || peer_commit->t_received > L[d][1]->t_written)
				res.violate("C17", "opening_before_commitment", "flip2:opening_before_commitment",
					"party writing direction " + std::to_string(d) + " sent its share before it had received the peer's commitment; " + ctx.str());
		}
	}
	if (res.ok())
	{
		if (bk >= 0)
		{
			res.cnt[std::string("fault.byz_peer_") + std::to_string(bk)]++;
			if (ses.ret[0] == 1)
				res.violate("C17", "accepts_deviating_peer", "flip2:accepts_deviating_peer", "honest party returned true against deviation " + std::to_string(bk) + "; " + ctx.str());
			if (bk == 0 && L[0].size() > 1)
				res.violate("C17", "opening_without_commitment", "flip2:opening_without_commitment", "honest party revealed its share although the peer never committed; " + ctx.str());
		}
		else if (fk == "f_lib_faulty")
		{
			res.cnt["fault.lib_simulate_faulty"]++;
			int honest = faultyA ? 1 : 0;
			if (ses.ret[honest] == 1)
				res.violate("C17", "accepts_faulty_library_peer", "flip2:accepts_faulty_library_peer", "honest party accepted the library's own faulty behaviour; " + ctx.str());
		}
		else if (mutated)
		{
			int receiver = (mdir == 0) ? 1 : 0; // direction 0 is read by B (side 1)
			if (ses.ret[receiver] == 1)
				res.violate("C17", "accepts_mutated_value", "flip2:accepts_mutated_value", "receiver of the altered line returned true; dir=" + std::to_string(mdir) + " line=" + std::to_string(midx) + "; " + ctx.str());
		}
		else
		{
			if (ses.ret[0] != 1 || ses.ret[1] != 1)
				res.violate("C17", "honest_run_failed", "flip2:honest_run_failed", "A=" + std::to_string(ses.ret[0]) + " B=" + std::to_string(ses.ret[1]) + " " + errA.str() + errB.str() + "; " + ctx.str());
			else if (mpz_cmp(coinA, coinB))
				res.violate("C17", "coins_differ", "flip2:coins_differ", "the two parties output different coins; " + ctx.str());
			else if (L[0].size() == 3 && L[1].size() == 3)
			{
				Z a0, a1, s;
				mpz_set_str(a0, L[0][1]->original.c_str(), TMCG_MPZ_IO_BASE); mpz_set_str(a1, L[1][1]->original.c_str(), TMCG_MPZ_IO_BASE);
				mpz_add(s, a0, a1); mpz_mod(s, s, G.q);
				if (mpz_cmp(s, coinA))
					res.violate("C17", "coin_not_sum", "flip2:coin_not_sum", "coin differs from the sum of the opened shares modulo q; " + ctx.str());
				res.cnt["probe.sum_checked"]++;
			}
			else
				res.violate("C17", "unexpected_transcript", "flip2:unexpected_transcript", "expected three lines per direction; " + ctx.str());
		}
	}
	if (ses.eof_injected) res.cnt["probe.eof_unwind"]++;
	res.fingerprint = S.hist.h; res.steps = S.steps; res.sim_ms = S.now_ms; res.nontrivial = true;
	return res;
}

int main(int argc, char **argv)
{
	Scenario sc;
	sc.name = "flip2";
	sc.real_components = "src/JareckiLysyanskayaASTC.cc (EDCF::Flip_twoparty, RVSS::Share_twoparty, CheckGroup/CheckElement), mpz_spowm, mpz_srandom";
	sc.stub_components = "stream pair (SimStreambuf with fragmentation and line relay), processes (two baton-scheduled tasks), entropy; a deviating peer scripted by the harness on the wire format";
	sc.rule = "one case = (group, role assignment, fragmentation) x {honest run, relay replacing or dropping one of the three lines of one direction, peer that withholds its commitment / opens to another value / wrong randomness / value+q / commitment outside the group / chooses its opening after seeing the honest one, the library's own faulty switch}; history check: no opening is written before the peer's commitment line was completely received; distinct = history fingerprint";
	sc.generate = flip2_generate; sc.execute = flip2_execute; sc.worker_init = flip2_init;
	return runner_main(argc, argv, sc);
}
