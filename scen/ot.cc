// Scenario ot (C18): Naor-Pinkas oblivious transfer between a sender task and a chooser task over a
// simulated stream pair; honest runs, curious chooser, scripted Byzantine chooser, relay mutations.
#include "common.hh"
#include <NaorPinkasEOTP.hh>
#include <memory>

using namespace sim;

static void ot_init(const Tier &) { build_group_pool(2, false); }

static Plan ot_generate(uint64_t seed, const Tier &tier)
{
	Plan p; p.seed = seed; p.property = "C18";
	Rng g(derive(seed, 1));
	p.cfg["variant"] = (int64_t)g.below(3);
	int N = 2;
	if (p.cfg["variant"] != 0)
	{
		unsigned r = (unsigned)g.below(10);
		N = (r < 6) ? (int)g.range(2, 8) : ((r < 9) ? (int)g.range(9, 24) : (int)g.range(25, tier.thorough ? 64 : 40));
	}
	p.cfg["N"] = N;
	p.cfg["sigma"] = (int64_t)g.below(N);
	p.cfg["group"] = (int64_t)g.below(group_pool().size());
	p.cfg["msgs"] = (int64_t)g.below(4);     // 0 random members, 1 includes the identity, 2 all equal, 3 small powers
	p.cfg["chunked"] = g.chance(1, 2);
	unsigned m = (unsigned)g.below(10);
	if (tier.opt.count("nofaults")) m = 0;
	if (m < 5) { /* honest */ }
	else if (m < 8) p.ops.push_back(Op("f_byz_chooser", (int64_t)g.below(9), (int64_t)g.below(64), (int64_t)g.below(64)));
	else p.ops.push_back(Op("f_mitm_mut", (int64_t)g.below(70), (int64_t)g.below(2)));
	return p;
}

static RunResult ot_execute(const Plan &plan)
{
	RunResult res;
	Sim S(plan.seed, 4);
	CerrCapture cap;
	const Grp &G = group_pool()[(size_t)plan.get("group", 0) % group_pool().size()];
	int variant = (int)(plan.get("variant", 0) % 3);
	size_t N = (size_t)std::max<int64_t>(2, std::min<int64_t>(64, plan.get("N", 2)));
	if (variant == 0) N = 2;
	size_t sigma = (size_t)plan.get("sigma", 0) % N;
	int msgs = (int)plan.get("msgs", 0);
	S.single_party = 0;
	NaorPinkasEOTP otS(G.p, G.q, G.g, G.fs, G.ss), otC(G.p, G.q, G.g, G.fs, G.ss);
	if (!otS.CheckGroup()) { res.violate("C18", "group_rejected", "ot:group_rejected", "pool group refused by CheckGroup"); return res; }
	// messages: members of the subgroup
	std::vector<Z> M(N); std::vector<mpz_ptr> Mp;
	for (size_t i = 0; i < N; i++)
	{
		Z e; mpz_set_ui(e, 1 + S.gen.below(1u << 30));
		if (msgs == 1 && i == (sigma + 1) % N) mpz_set_ui(M[i], 1);
		else if (msgs == 1 && i == sigma && S.gen.chance(1, 2)) mpz_set_ui(M[i], 1);
		else if (msgs == 2 && i > 0) M[i] = M[0];
		else if (msgs == 3) { mpz_set_ui(e, i + 1); mpz_powm(M[i], G.g, e, G.p); }
		else mpz_powm(M[i], G.g, e, G.p);
		Mp.push_back(M[i]);
	}
	const Op *fop = NULL;
	for (size_t i = 0; i < plan.ops.size(); i++) if (plan.ops[i].is_fault()) { fop = &plan.ops[i]; break; }
	bool byz = fop && fop->kind == "f_byz_chooser";
	bool mitm = fop && fop->kind == "f_mitm_mut";
	Session ses(S);
	ses.chunked = plan.get("chunked", 0) != 0;
	size_t first_move_lines = (variant == 2) ? 3 : (2 + N);
	bool mutated = false; size_t mut_idx = 0; int kind = 0;
	if (mitm)
	{
		mut_idx = (size_t)fop->arg(0) % first_move_lines; kind = (int)fop->arg(1);
		ses.relay = [&](int dir, size_t idx, const std::string &line, std::vector<std::string> &out)
		{
			std::string m;
			if (dir == 1 && idx == mut_idx && mutate_int_line(line, kind, m) && m != line)
			{ out.push_back(m); mutated = true; res.cnt["fault.mitm_mut"]++; }
			else out.push_back(line);
		};
	}
	Z Mout; Rng chooser_rng0 = S.party[1];
	auto sender = [&](std::istream &in, std::ostream &out) -> bool
	{
		if (variant == 0) return otS.Send_interactive_OneOutOfTwo(M[0], M[1], in, out);
		if (variant == 1) return otS.Send_interactive_OneOutOfN(Mp, in, out);
		return otS.Send_interactive_OneOutOfN_optimized(Mp, in, out);
	};
	auto chooser = [&](std::istream &in, std::ostream &out) -> bool
	{
		if (variant == 0) return otC.Choose_interactive_OneOutOfTwo(sigma, Mout, in, out);
		if (variant == 1) return otC.Choose_interactive_OneOutOfN(sigma, N, Mout, in, out);
		return otC.Choose_interactive_OneOutOfN_optimized(sigma, N, Mout, in, out);
	};
	int bk = byz ? (int)(fop->arg(0) % 9) : -1;
	bool byz_applicable = true;
	auto byz_chooser = [&](std::istream &in, std::ostream &out) -> bool
	{
		// a well-formed first move with one defect
		Z a, b, x, y, c, t;
		tmcg_mpz_srandomm(a, G.q); mpz_powm(x, G.g, a, G.p);
		tmcg_mpz_srandomm(b, G.q); mpz_powm(y, G.g, b, G.p);
		std::vector<Z> z((variant == 2) ? 1 : N);
		for (size_t i = 0; i < z.size(); i++) { tmcg_mpz_srandomm(c, G.q); mpz_powm(z[i], G.g, c, G.p); }
		size_t i1 = (size_t)fop->arg(1) % z.size(), i2 = (size_t)fop->arg(2) % z.size();
		switch (bk)
		{
			case 0: if (z.size() < 2 || i1 == i2) { i2 = (i1 + 1) % z.size(); } if (z.size() < 2) byz_applicable = false; else z[i2] = z[i1]; break; // coinciding queries
			case 1: { // non-member of the subgroup
				Z e; do { tmcg_mpz_wrandomm(t, G.p); mpz_powm(e, t, G.q, G.p); } while (!zcmp_ui(e, 1) || !zcmp_ui(t, 0));
				z[i1] = t; break; }
			case 2: mpz_set_ui(x, 0); break;
			case 3: mpz_set(y, G.p); break;
			case 4: mpz_add(z[i1], z[i1], G.p); break; // representative >= p
			// the same group element under another integer: coinciding queries that an integer comparison does not see
			case 6: if (z.size() < 2 || i1 == i2) { i2 = (i1 + 1) % z.size(); } if (z.size() < 2) byz_applicable = false; else mpz_sub(z[i2], z[i1], G.p); break;
			case 7: mpz_sub(z[i1], z[i1], G.p); break; // negative representative of a member
			case 8: if (z.size() < 2) byz_applicable = false; else for (size_t i = 1; i < z.size(); i++) { Z m; mpz_mul_ui(m, G.p, (unsigned long)i); mpz_sub(z[i], z[0], m); } break; // z_i = z_0 - i*p for all i
			case 5: { Z e; do { tmcg_mpz_wrandomm(t, G.p); mpz_powm(e, t, G.q, G.p); } while (!zcmp_ui(e, 1) || !zcmp_ui(t, 0));
				mpz_set(x, t); break; }
		}
		out << x.io() << std::endl << y.io() << std::endl;
		for (size_t i = 0; i < z.size(); i++) out << z[i].io() << std::endl;
		std::string l; size_t got = 0;
		while (std::getline(in, l)) got++;
		return got == 0;
	};
	if (byz) ses.run(0, 1, sender, byz_chooser); else ses.run(0, 1, sender, chooser);
	res.cnt["probe.sessions"]++;
	// ---- oracle
	size_t sender_lines = 0;
	for (size_t i = 0; i < ses.transcript.size(); i++) if (ses.transcript[i].dir == 0) sender_lines++;
	std::ostringstream ctx; ctx << "variant=" << variant << " N=" << N << " sigma=" << sigma << " msgs=" << msgs << " group=" << G.fs << "/" << G.ss;
	if (byz)
	{
		res.cnt[std::string("fault.byz_chooser_") + std::to_string(bk)]++;
		if (byz_applicable)
		{
			if (ses.ret[0] == 1)
				res.violate("C18", "sender_accepts_bad_query", "ot:sender_accepts_bad_query", "sender returned true on defect kind " + std::to_string(bk) + "; " + ctx.str());
			else if (sender_lines != 0)
				res.violate("C18", "ciphertext_after_bad_query", "ot:ciphertext_after_bad_query", "sender wrote ciphertext lines after a refused query; " + ctx.str());
		}
	}
	else if (mitm && mutated)
	{
		if (ses.ret[0] == 1)
			res.violate("C18", "sender_accepts_mutated_query", "ot:sender_accepts_mutated_query", "first-move line " + std::to_string(mut_idx) + " was replaced by a non-member and the sender went on; " + ctx.str());
	}
	else
	{
		if (ses.ret[0] != 1 || ses.ret[1] != 1)
			res.violate("C18", "honest_run_failed", "ot:honest_run_failed", "sender=" + std::to_string(ses.ret[0]) + " chooser=" + std::to_string(ses.ret[1]) + " " + ses.exc[0] + ses.exc[1] + "; " + ctx.str());
		else if (mpz_cmp(Mout, M[sigma]))
			res.violate("C18", "wrong_message", "ot:wrong_message", "chooser output differs from M[sigma]; " + ctx.str());
		else
		{
			// curious chooser: recompute its secrets from a copy of its coin stream, verify them against
			// the wire (x = g^a, y = g^b), then try to open the other ciphertexts with b
			S.party[3] = chooser_rng0; S.single_party = 3;
			Z a, b, x, y, t, u;
			tmcg_mpz_srandomm(a, G.q); tmcg_mpz_srandomm(b, G.q);
			mpz_powm(x, G.g, a, G.p); mpz_powm(y, G.g, b, G.p);
			std::vector<std::string> c2s, s2c;
			for (size_t i = 0; i < ses.transcript.size(); i++)
				(ses.transcript[i].dir == 1 ? c2s : s2c).push_back(ses.transcript[i].original);
			if (c2s.size() >= 2 && c2s[0] == x.io() && c2s[1] == y.io() && s2c.size() == 2 * N)
			{
				res.cnt["probe.curious_chooser_checked"]++;
				for (size_t j = 0; j < N && res.ok(); j++)
				{
					Z w, enc;
					mpz_set_str(w, s2c[2 * j].c_str(), TMCG_MPZ_IO_BASE); mpz_set_str(enc, s2c[2 * j + 1].c_str(), TMCG_MPZ_IO_BASE);
					mpz_powm(t, w, b, G.p);
					if (!mpz_invert(u, t, G.p)) continue;
					mpz_mul(t, enc, u); mpz_mod(t, t, G.p);
					if (j == sigma) { if (mpz_cmp(t, M[j])) res.violate("C18", "curious_selfcheck", "ot:curious_selfcheck", "harness reconstruction of the chosen message failed; " + ctx.str()); }
					else if (!mpz_cmp(t, M[j]))
						res.violate("C18", "other_message_opens", "ot:other_message_opens", "ciphertext " + std::to_string(j) + " (not chosen) decrypts to its message under the chooser's own secret; " + ctx.str());
					else
					{
						// the chooser knows more than b: a, and hence the exponent c_j = ab - sigma + j of every query
						// element.  With fresh sender coins (r_j, s_j) the key g^{c_j s_j + b r_j} is out of reach of
						// every power of w_j = g^{a s_j + r_j}; if one of the coins is missing (r_j = 0 or s_j = 0) a
						// power with an exponent built from a, b and c_j opens the message
						Z cj, ainv, e;
						mpz_mul(cj, a, b); mpz_sub_ui(cj, cj, (unsigned long)sigma); mpz_add_ui(cj, cj, (unsigned long)j); mpz_mod(cj, cj, G.q);
						bool has_ainv = mpz_invert(ainv, a, G.q) != 0;
						for (int cand = 0; cand < 4 && res.ok(); cand++)
						{
							if (cand == 0) mpz_set(e, a);
							else if (cand == 1) mpz_set(e, cj);
							else if (cand == 2) { if (!has_ainv) continue; mpz_mul(e, cj, ainv); mpz_mod(e, e, G.q); }
							else { mpz_mul(e, a, b); mpz_mod(e, e, G.q); }
							mpz_powm(t, w, e, G.p);
							if (!mpz_invert(u, t, G.p)) continue;
							mpz_mul(t, enc, u); mpz_mod(t, t, G.p);
							if (!mpz_cmp(t, M[j]))
								res.violate("C18", "other_message_opens", "ot:other_message_opens", "ciphertext " + std::to_string(j) + " (not chosen) decrypts to its message under w_j raised to an exponent the chooser knows (candidate " + std::to_string(cand) + " of a, c_j, c_j/a, ab); " + ctx.str());
						}
						res.cnt["probe.curious_chooser_exponent_candidates"] += 4;
					}
				}
				// fresh blinding per message: all w_j pairwise distinct
				for (size_t j = 0; j < N && res.ok(); j++)
					for (size_t k2 = j + 1; k2 < N; k2++)
						if (s2c[2 * j] == s2c[2 * k2])
						{ res.violate("C18", "blinding_reused", "ot:blinding_reused", "w values of two messages coincide; " + ctx.str()); break; }
			}
			else res.cnt["probe.curious_chooser_skipped"]++;
		}
	}
	if (ses.eof_injected) res.cnt["probe.eof_unwind"]++;
	res.fingerprint = S.hist.h; res.steps = S.steps; res.sim_ms = S.now_ms;
	res.nontrivial = true;
	return res;
}

int main(int argc, char **argv)
{
	Scenario sc;
	sc.name = "ot";
	sc.real_components = "src/NaorPinkasEOTP.cc (all three sender/chooser pairs, CheckGroup/CheckElement), mpz_spowm, mpz_srandom, libgmp";
	sc.stub_components = "the stream pair between the two roles (SimStreambuf with seeded fragmentation and a line relay); processes (two baton-scheduled tasks); entropy (seeded per-party PRNG); a Byzantine chooser scripted by the harness on the wire format";
	sc.rule = "one case = (variant 1-of-2 / 1-of-N / optimised, N<=64, index, message vector class incl. identity and repeated messages, group, fragmentation) x {honest run with curious-chooser recomputation from the chooser's own coins, scripted first move with coinciding / non-member / 0 / p / >=p elements, relay replacing one first-move line by value+1 or 0}; distinct = history fingerprint over every transmitted line; all cases are non-trivial (two communicating tasks)";
	sc.generate = ot_generate; sc.execute = ot_execute; sc.worker_init = ot_init;
	return runner_main(argc, argv, sc);
}
