// Scenario torn (C12, storage/transport faults on artefacts at rest): every kind of artefact the
// library exports is re-imported after being cut at every byte offset (torn write / short store) and
// with single bytes flipped (bit rot), under ASan+UBSan.  A clean refusal is a negative result, a
// std::exception or an object whose check fails; anything else kills the worker and is attributed to
// the case.  Cases are enumerated, not seeded.
#include "common.hh"
#include <memory>

using namespace sim;

namespace {

struct Artefact { std::string name, text; };
static std::vector<Artefact> g_art;
struct Fix // objects the importers need around them
{
	std::string group_text;
	std::unique_ptr<BarnettSmartVTMF_dlog> vtmf, vtmf2;
	std::unique_ptr<SchindelhauerTMCG> tmcg;
	std::unique_ptr<GrothVSSHE> vsshe;
	std::unique_ptr<HooghSchoenmakersSkoricVillegasVRHE> vrhe;
	TMCG_Stack<VTMF_Card> s, s2; TMCG_StackSecret<VTMF_CardSecret> ss;
	TMCG_Stack<VTMF_Card> rs, rs2; TMCG_StackSecret<VTMF_CardSecret> rss;
	VTMF_Card c, cc; VTMF_CardSecret cs;
	Z m, c1, c2, r;
	std::unique_ptr<TMCG_SecretKey> sk; std::unique_ptr<TMCG_PublicKey> pk;
	TMCG_PublicKeyRing *ring;
};
static Fix *F = NULL;

static void add(const std::string &n, const std::string &t) { Artefact a; a.name = n; a.text = t; g_art.push_back(a); }

static void torn_init(const Tier &)
{
	if (F) return;
	F = new Fix();
	Sim S(0x70a2001ULL, 4);
	CerrCapture cap;
	S.single_party = 0;
	const unsigned long fs = 512, gs = 160;
	{
		BarnettSmartVTMF_dlog v(fs, gs, false);
		std::ostringstream o; v.PublishGroup(o); F->group_text = o.str();
	}
	std::istringstream g1(F->group_text), g2(F->group_text);
	F->vtmf.reset(new BarnettSmartVTMF_dlog(g1, fs, gs)); S.single_party = 1; F->vtmf2.reset(new BarnettSmartVTMF_dlog(g2, fs, gs));
	S.single_party = 0; F->vtmf->KeyGenerationProtocol_GenerateKey(); S.single_party = 1; F->vtmf2->KeyGenerationProtocol_GenerateKey();
	std::ostringstream k1, k2; F->vtmf->KeyGenerationProtocol_PublishKey(k1); F->vtmf2->KeyGenerationProtocol_PublishKey(k2);
	{ std::istringstream i(k2.str()); F->vtmf->KeyGenerationProtocol_UpdateKey(i); }
	{ std::istringstream i(k1.str()); F->vtmf2->KeyGenerationProtocol_UpdateKey(i); }
	F->vtmf->KeyGenerationProtocol_Finalize(); F->vtmf2->KeyGenerationProtocol_Finalize();
	S.single_party = 0;
	F->tmcg.reset(new SchindelhauerTMCG(3, 2, 3));
	add("vtmf_group", F->group_text);
	add("vtmf_key", k2.str());
	// cards, secrets, stacks
	F->tmcg->TMCG_CreateOpenCard(F->c, F->vtmf.get(), 5);
	F->tmcg->TMCG_CreateCardSecret(F->cs, F->vtmf.get());
	F->tmcg->TMCG_MaskCard(F->c, F->cc, F->cs, F->vtmf.get());
	{ std::ostringstream o; o << F->cc; add("vtmf_card", o.str()); }
	{ std::ostringstream o; o << F->cs; add("vtmf_cardsecret", o.str()); }
	for (size_t i = 0; i < 4; i++) { VTMF_Card c; F->tmcg->TMCG_CreateOpenCard(c, F->vtmf.get(), i); F->s.push(c); F->rs.push(c); }
	F->tmcg->TMCG_CreateStackSecret(F->ss, false, 4, F->vtmf.get());
	F->tmcg->TMCG_MixStack(F->s, F->s2, F->ss, F->vtmf.get());
	F->tmcg->TMCG_CreateStackSecret(F->rss, true, 4, F->vtmf.get());
	F->tmcg->TMCG_MixStack(F->rs, F->rs2, F->rss, F->vtmf.get());
	{ std::ostringstream o; o << F->s2; add("vtmf_stack", o.str()); }
	{ std::ostringstream o; o << F->ss; add("vtmf_stacksecret", o.str()); }
	// proofs (non-interactive / one-way)
	F->vtmf->IndexElement(F->m, 3);
	F->vtmf->VerifiableMaskingProtocol_Mask(F->m, F->c1, F->c2, F->r);
	{ std::ostringstream o; F->vtmf->VerifiableMaskingProtocol_Prove(F->m, F->c1, F->c2, F->r, o); add("proof_vmask", o.str()); }
	{ std::stringstream o; F->tmcg->TMCG_ProveMaskCard(F->c, F->cc, F->cs, F->vtmf.get(), o, o); add("proof_remask", o.str()); }
	{ std::stringstream o; S.single_party = 1; F->tmcg->TMCG_ProveCardSecret(F->cc, F->vtmf2.get(), o, o); S.single_party = 0; add("proof_decrypt", o.str()); }
	F->vsshe.reset(new GrothVSSHE(4, F->vtmf->p, F->vtmf->q, F->vtmf->k, F->vtmf->g, F->vtmf->h, 32, fs, gs));
	{ std::ostringstream o; F->vsshe->PublishGroup(o); add("vsshe_group", o.str()); }
	{ std::ostringstream o; F->tmcg->TMCG_ProveStackEquality_Groth_noninteractive(F->s, F->s2, F->ss, F->vtmf.get(), F->vsshe.get(), o); add("proof_groth_ni", o.str()); }
	F->vrhe.reset(new HooghSchoenmakersSkoricVillegasVRHE(F->vtmf->p, F->vtmf->q, F->vtmf->g, F->vtmf->h, fs, gs));
	{ std::ostringstream o; F->vrhe->PublishGroup(o); add("vrhe_group", o.str()); }
	{ std::ostringstream o; F->tmcg->TMCG_ProveStackEquality_Hoogh_noninteractive(F->rs, F->rs2, F->rss, F->vtmf.get(), F->vrhe.get(), o); add("proof_hoogh_ni", o.str()); }
	{ PedersenCommitmentScheme com(3, F->vtmf->p, F->vtmf->q, F->vtmf->k, F->vtmf->h, fs, gs); std::ostringstream o; com.PublishGroup(o); add("pedersen_com_group", o.str()); }
	{ NaorPinkasEOTP ot(F->vtmf->p, F->vtmf->q, F->vtmf->g, fs, gs); std::ostringstream o; ot.PublishGroup(o); add("ot_group", o.str()); }
	// Rabin key (quadratic-residue encoding): key, public key, card, card secret
	F->sk.reset(new TMCG_SecretKey("Alice", "alice@example.org", 1024, true));
	F->pk.reset(new TMCG_PublicKey(*F->sk));
	{ std::ostringstream o; o << *F->sk; add("tmcg_secretkey", o.str()); }
	{ std::ostringstream o; o << *F->pk; add("tmcg_publickey", o.str()); }
	F->ring = new TMCG_PublicKeyRing(2);
	F->ring->keys[0] = *F->pk; F->ring->keys[1] = *F->pk;
	{
		SchindelhauerTMCG t2(2, 2, 2); TMCG_Card c(2, 2); TMCG_CardSecret cs(2, 2);
		t2.TMCG_CreatePrivateCard(c, cs, *F->ring, 0, 2);
		{ std::ostringstream o; o << c; add("tmcg_card", o.str()); }
		{ std::ostringstream o; o << cs; add("tmcg_cardsecret", o.str()); }
		TMCG_Stack<TMCG_Card> st; st.push(c); st.push(c);
		{ std::ostringstream o; o << st; add("tmcg_stack", o.str()); }
		TMCG_StackSecret<TMCG_CardSecret> sts; t2.TMCG_CreateStackSecret(sts, false, *F->ring, 0, 2);
		{ std::ostringstream o; o << sts; add("tmcg_stacksecret", o.str()); }
	}
	{ std::string sig = F->sk->sign("some data"); add("tmcg_signature", sig); }
	{ std::string ct = F->pk->encrypt((const unsigned char*)"0123456789abcdefghij"); add("tmcg_ciphertext", ct); }
	// persisted protocol states (freshly constructed instances; reached states are covered by the dkg scenario)
	{ PedersenVSS v(4, 1, 0, F->vtmf->p, F->vtmf->q, F->vtmf->g, F->vtmf->h, fs, gs, false); std::ostringstream o; v.PublishState(o); add("state_pedersen_vss", o.str()); }
	{ GennaroJareckiKrawczykRabinDKG v(4, 1, 0, F->vtmf->p, F->vtmf->q, F->vtmf->g, F->vtmf->h, fs, gs, false, false); std::ostringstream o; v.PublishState(o); add("state_gjkr_dkg", o.str()); }
	{ CanettiGennaroJareckiKrawczykRabinRVSS v(4, 1, 0, 1, F->vtmf->p, F->vtmf->q, F->vtmf->g, F->vtmf->h, fs, gs, false, false); std::ostringstream o; v.PublishState(o); add("state_cgjkr_rvss", o.str()); }
	{ CanettiGennaroJareckiKrawczykRabinZVSS v(4, 1, 0, 1, F->vtmf->p, F->vtmf->q, F->vtmf->g, F->vtmf->h, fs, gs, false, false); std::ostringstream o; v.PublishState(o); add("state_cgjkr_zvss", o.str()); }
	{ CanettiGennaroJareckiKrawczykRabinDKG v(4, 1, 0, F->vtmf->p, F->vtmf->q, F->vtmf->g, F->vtmf->h, fs, gs, false, false); std::ostringstream o; v.PublishState(o); add("state_cgjkr_dkg", o.str()); }
	{ CanettiGennaroJareckiKrawczykRabinDSS v(4, 1, 0, F->vtmf->p, F->vtmf->q, F->vtmf->g, F->vtmf->h, fs, gs, false, false); std::ostringstream o; v.PublishState(o); add("state_cgjkr_dss", o.str()); }
}

// feed one damaged text to the importer of its kind; returns a short outcome tag
static const char *feed(const std::string &name, const std::string &t)
{
	const unsigned long fs = 512, gs = 160;
	std::istringstream in(t);
	try
	{
		if (name == "vtmf_group") { BarnettSmartVTMF_dlog v(in, fs, gs); return v.CheckGroup() ? "accepted" : "check_failed"; }
		if (name == "vtmf_key") { std::istringstream g(F->group_text); BarnettSmartVTMF_dlog v(g, fs, gs); v.KeyGenerationProtocol_GenerateKey(); return v.KeyGenerationProtocol_UpdateKey(in) ? "accepted" : "refused"; }
		if (name == "vtmf_card") { VTMF_Card c; return c.import(t) ? "accepted" : "refused"; }
		if (name == "vtmf_cardsecret") { VTMF_CardSecret c; return c.import(t) ? "accepted" : "refused"; }
		if (name == "vtmf_stack") { TMCG_Stack<VTMF_Card> s; return s.import(t) ? "accepted" : "refused"; }
		if (name == "vtmf_stacksecret") { TMCG_StackSecret<VTMF_CardSecret> s; return s.import(t) ? "accepted" : "refused"; }
		if (name == "proof_vmask") return F->vtmf->VerifiableMaskingProtocol_Verify(F->m, F->c1, F->c2, in) ? "accepted" : "refused";
		if (name == "proof_remask") { std::ostringstream o; return F->tmcg->TMCG_VerifyMaskCard(F->c, F->cc, F->vtmf.get(), in, o) ? "accepted" : "refused"; }
		if (name == "proof_decrypt") { std::ostringstream o; F->tmcg->TMCG_SelfCardSecret(F->cc, F->vtmf.get()); return F->tmcg->TMCG_VerifyCardSecret(F->cc, F->vtmf.get(), in, o) ? "accepted" : "refused"; }
		if (name == "vsshe_group") { GrothVSSHE v(4, in, 32, fs, gs); return v.CheckGroup() ? "accepted" : "check_failed"; }
		if (name == "proof_groth_ni") return F->tmcg->TMCG_VerifyStackEquality_Groth_noninteractive(F->s, F->s2, F->vtmf.get(), F->vsshe.get(), in) ? "accepted" : "refused";
		if (name == "vrhe_group") { HooghSchoenmakersSkoricVillegasVRHE v(in, fs, gs); return v.CheckGroup() ? "accepted" : "check_failed"; }
		if (name == "proof_hoogh_ni") return F->tmcg->TMCG_VerifyStackEquality_Hoogh_noninteractive(F->rs, F->rs2, F->vtmf.get(), F->vrhe.get(), in) ? "accepted" : "refused";
		if (name == "pedersen_com_group") { PedersenCommitmentScheme v(3, in, fs, gs); return v.CheckGroup() ? "accepted" : "check_failed"; }
		if (name == "ot_group") { NaorPinkasEOTP v(in, fs, gs); return v.CheckGroup() ? "accepted" : "check_failed"; }
		if (name == "tmcg_secretkey") { TMCG_SecretKey k; if (!k.import(t)) return "refused"; return k.check() ? "accepted" : "check_failed"; }
		if (name == "tmcg_publickey") { TMCG_PublicKey k; if (!k.import(t)) return "refused"; return k.check() ? "accepted" : "check_failed"; }
		if (name == "tmcg_card") { TMCG_Card c; return c.import(t) ? "accepted" : "refused"; }
		if (name == "tmcg_cardsecret") { TMCG_CardSecret c; return c.import(t) ? "accepted" : "refused"; }
		if (name == "tmcg_stack") { TMCG_Stack<TMCG_Card> s; return s.import(t) ? "accepted" : "refused"; }
		if (name == "tmcg_stacksecret") { TMCG_StackSecret<TMCG_CardSecret> s; return s.import(t) ? "accepted" : "refused"; }
		if (name == "tmcg_signature") return F->pk->verify("some data", t) ? "accepted" : "refused";
		if (name == "tmcg_ciphertext") { unsigned char out[64]; return F->sk->decrypt(out, t) ? "accepted" : "refused"; }
		if (name == "state_pedersen_vss") { PedersenVSS v(in, fs, gs, false); return v.CheckGroup() ? "accepted" : "check_failed"; }
		if (name == "state_gjkr_dkg") { GennaroJareckiKrawczykRabinDKG v(in, fs, gs, false, false); return v.CheckGroup() ? "accepted" : "check_failed"; }
		if (name == "state_cgjkr_rvss") { CanettiGennaroJareckiKrawczykRabinRVSS v(in, fs, gs, false, false); return v.CheckGroup() ? "accepted" : "check_failed"; }
		if (name == "state_cgjkr_zvss") { CanettiGennaroJareckiKrawczykRabinZVSS v(in, fs, gs, false, false); return v.CheckGroup() ? "accepted" : "check_failed"; }
		if (name == "state_cgjkr_dkg") { CanettiGennaroJareckiKrawczykRabinDKG v(in, fs, gs, false, false); return v.CheckGroup() ? "accepted" : "check_failed"; }
		if (name == "state_cgjkr_dss") { CanettiGennaroJareckiKrawczykRabinDSS v(in, fs, gs, false, false); return v.CheckGroup() ? "accepted" : "check_failed"; }
	}
	catch (std::exception &) { return "std_exception"; }
	catch (bool) { return "bool_thrown"; }
	return "unknown_artefact";
}

} // namespace

static const size_t CHUNK = 48;

static void torn_enumerate(const Tier &tier, std::vector<Plan> &out)
{
	bool deep = tier.thorough || tier.opt.count("deep");
	for (size_t a = 0; a < g_art.size(); a++)
	{
		size_t len = g_art[a].text.size();
		// mode 0: truncation at every offset; mode 1: one byte flipped (every offset when deep, else a
		// stride); mode 2: one byte deleted; mode 3: one byte duplicated
		for (int mode = 0; mode < 4; mode++)
		{
			size_t stride = 1;
			if (mode > 0 && !deep) stride = 1 + len / 400;
			if (mode == 0 && !deep && len > 3000) stride = 1 + len / 3000;
			std::vector<size_t> offs;
			for (size_t o = 0; o < len; o += stride) offs.push_back(o);
			for (size_t b = 0; b < offs.size(); b += CHUNK)
			{
				Plan p; p.seed = a * 1000003 + mode * 10007 + b; p.property = "C12";
				p.cfg["art"] = (int64_t)a; p.cfg["mode"] = mode;
				for (size_t k = b; k < offs.size() && k < b + CHUNK; k++) p.ops.push_back(Op("f_off", (int64_t)offs[k], (int64_t)(k * 7 + mode)));
				out.push_back(p);
			}
		}
	}
}

static Plan torn_generate(uint64_t seed, const Tier &)
{
	// seeded cases on top of the enumeration: two independent damages in one artefact
	Plan p; p.seed = seed; p.property = "C12";
	Rng g(derive(seed, 1));
	size_t a = (size_t)g.below(g_art.size());
	p.cfg["art"] = (int64_t)a; p.cfg["mode"] = 4;
	for (int i = 0; i < 16; i++) p.ops.push_back(Op("f_off", (int64_t)g.below(g_art[a].text.size() + 1), (int64_t)g.below(1 << 20)));
	return p;
}

static RunResult torn_execute(const Plan &plan)
{
	RunResult res;
	Sim S(plan.seed, 4);
	S.single_party = 0;
	CerrCapture cap;
	const Artefact &A = g_art[(size_t)plan.get("art", 0) % g_art.size()];
	int mode = (int)plan.get("mode", 0);
	for (size_t i = 0; i < plan.ops.size(); i++)
	{
		const Op &op = plan.ops[i];
		if (op.kind != "f_off") continue;
		std::string t = A.text;
		size_t off = t.empty() ? 0 : (size_t)op.arg(0) % (t.size() + (mode == 0 ? 0 : 0));
		if (t.empty()) continue;
		off = (size_t)op.arg(0) % t.size();
		switch (mode)
		{
			case 0: t = t.substr(0, off); res.cnt["fault.torn"]++; break;
			case 1: t[off] = (char)(t[off] ^ (1 << (op.arg(1) % 7))); res.cnt["fault.bitrot"]++; break;
			case 2: t.erase(off, 1); res.cnt["fault.byte_lost"]++; break;
			case 3: t.insert(off, 1, t[off]); res.cnt["fault.byte_dup"]++; break;
			default:
			{
				size_t off2 = (size_t)(op.arg(1) >> 3) % t.size();
				t[off] = (char)(t[off] ^ (1 << (op.arg(1) % 7)));
				t = t.substr(0, std::max(off2, (size_t)1));
				res.cnt["fault.bitrot_and_torn"]++;
			}
		}
		const char *r = feed(A.name, t);
		res.cnt[std::string("probe.") + A.name + "." + r]++;
		S.hist.add_str(H_RESULT, r); S.hist.add(H_OP, off, mode);
	}
	res.fingerprint = S.hist.h ^ derive(plan.seed, 5); res.steps = plan.ops.size(); res.nontrivial = true;
	return res;
}

int main(int argc, char **argv)
{
	Scenario sc;
	sc.name = "torn";
	sc.real_components = "import()/operator>> of cards, card secrets, stacks, stack secrets (both encodings), Rabin keys, signatures and ciphertexts; stream constructors + CheckGroup of BarnettSmartVTMF_dlog, GrothVSSHE, HooghSchoenmakersSkoricVillegasVRHE, PedersenCommitmentScheme, NaorPinkasEOTP, PedersenVSS, GennaroJareckiKrawczykRabinDKG, CanettiGennaroJareckiKrawczykRabin{RVSS,ZVSS,DKG,DSS}; verifiers of the one-way and non-interactive proofs; KeyGenerationProtocol_UpdateKey";
	sc.stub_components = "the store / wire that holds the artefact between export and import (torn, short, bit-rotten contents)";
	sc.rule = "enumerated: for each of the artefact kinds produced from one simulated table, truncation at every byte offset (stride for artefacts > 3000 bytes in the quick tier) and one flipped / lost / duplicated byte at every offset (stride len/400 in the quick tier), 48 damaged copies per case; seeded: a flipped byte combined with a truncation; distinct = fingerprint over the outcome tags of a case; every case is non-trivial (damaged input)";
	sc.enumerate = torn_enumerate; sc.generate = torn_generate; sc.execute = torn_execute; sc.worker_init = torn_init;
	return runner_main(argc, argv, sc);
}
