// Scenario pgp (C20 within its stated scope, OpenPGP part of C12): a signer/encryptor node and a
// verifier/decryptor node with their own simulated clocks, connected by an artefact channel that
// alters, truncates, re-orders or drops parts of what travels.  Real: the OpenPGP implementation
// (encoders, parsers, validity and integrity checks), libgcrypt.  Keys are fixed test keys (no seam
// exists for libgcrypt-internal randomness; outcomes, not signature bytes, enter the fingerprint).
#include "common.hh"
#include "pgp_keys.hh"
#include <memory>
#include <algorithm>
#include <sys/stat.h>
#include <unistd.h>
#include <sys/wait.h>

using namespace sim;
typedef CallasDonnerhackeFinneyShawThayerRFC4880 PGP;

namespace {

struct Key
{
	gcry_sexp_t sexp; tmcg_openpgp_pkalgo_t algo; tmcg_openpgp_octets_t pub, pub_hashing, keyid; const char *name;
};
static std::vector<Key> g_keys;
static gcry_sexp_t g_elg = NULL, g_ecdh = NULL; // encryption keys (ElGamal-2048, ECDH NIST P-256)
static const time_t TK = 1500000000 - 86400 * 30; // creation time of all keys

static void load_key(const char *txt, tmcg_openpgp_pkalgo_t algo, const char *name)
{
	Key k; k.algo = algo; k.name = name; k.sexp = NULL;
	size_t erroff = 0;
	if (gcry_sexp_sscan(&k.sexp, &erroff, txt, strlen(txt))) { fprintf(stderr, "pgp: cannot parse key %s\n", name); exit(2); }
	if (algo == TMCG_OPENPGP_PKALGO_RSA)
	{
		gcry_mpi_t n = NULL, e = NULL;
		gcry_sexp_extract_param(k.sexp, NULL, "ne", &n, &e, NULL);
		PGP::PacketPubEncode(TK, algo, n, e, e, e, k.pub);
		gcry_mpi_release(n); gcry_mpi_release(e);
	}
	else if (algo == TMCG_OPENPGP_PKALGO_DSA)
	{
		gcry_mpi_t p = NULL, q = NULL, g = NULL, y = NULL;
		gcry_sexp_extract_param(k.sexp, NULL, "pqgy", &p, &q, &g, &y, NULL);
		PGP::PacketPubEncode(TK, algo, p, q, g, y, k.pub);
		gcry_mpi_release(p); gcry_mpi_release(q); gcry_mpi_release(g); gcry_mpi_release(y);
	}
	else if (algo == TMCG_OPENPGP_PKALGO_EDDSA)
	{
		// native point format: the 32 octets of q with the prefix 0x40
		gcry_mpi_t q = NULL, ecpk = NULL; unsigned char raw[32], q40[33]; size_t n = 0;
		gcry_sexp_extract_param(k.sexp, NULL, "/q", &q, NULL);
		unsigned int nbits = 0; const void *qp = gcry_mpi_get_opaque(q, &nbits); n = (nbits + 7) / 8;
		if (!qp || n > 32) { fprintf(stderr, "pgp: bad Ed25519 key\n"); exit(2); }
		memset(raw, 0, sizeof(raw)); memcpy(raw + (32 - n), qp, n);
		q40[0] = 0x40; memcpy(q40 + 1, raw, 32);
		gcry_mpi_scan(&ecpk, GCRYMPI_FMT_USG, q40, sizeof(q40), NULL);
		PGP::PacketPubEncode(TK, algo, tmcg_openpgp_oid_ed25519[0], tmcg_openpgp_oid_ed25519 + 1, ecpk, TMCG_OPENPGP_HASHALGO_UNKNOWN, TMCG_OPENPGP_SKALGO_PLAINTEXT, k.pub);
		gcry_mpi_release(q); gcry_mpi_release(ecpk);
	}
	else
	{
		gcry_mpi_t q = NULL;
		gcry_sexp_extract_param(k.sexp, NULL, "q", &q, NULL);
		static const tmcg_openpgp_byte_t oid[] = { 0x2A, 0x86, 0x48, 0xCE, 0x3D, 0x03, 0x01, 0x07 }; // NIST P-256
		PGP::PacketPubEncode(TK, algo, sizeof(oid), oid, q, TMCG_OPENPGP_HASHALGO_UNKNOWN, TMCG_OPENPGP_SKALGO_PLAINTEXT, k.pub);
		gcry_mpi_release(q);
	}
	PGP::PacketBodyExtract(k.pub, 0, k.pub_hashing);
	PGP::KeyidCompute(k.pub_hashing, k.keyid);
	g_keys.push_back(k);
}

static void pgp_init(const Tier &)
{
	if (!g_keys.empty()) return;
	load_key(PGP_KEY_RSA1, TMCG_OPENPGP_PKALGO_RSA, "rsa2048");
	load_key(PGP_KEY_ECDSA1, TMCG_OPENPGP_PKALGO_ECDSA, "ecdsa-p256");
	load_key(PGP_KEY_DSA1, TMCG_OPENPGP_PKALGO_DSA, "dsa2048");
	load_key(PGP_KEY_RSA2, TMCG_OPENPGP_PKALGO_RSA, "rsa2048-other");
	load_key(PGP_KEY_ED1, TMCG_OPENPGP_PKALGO_EDDSA, "ed25519");
	size_t eo = 0;
	if (gcry_sexp_sscan(&g_elg, &eo, PGP_KEY_ELG1, strlen(PGP_KEY_ELG1)) || gcry_sexp_sscan(&g_ecdh, &eo, PGP_KEY_ECDH1, strlen(PGP_KEY_ECDH1))) { fprintf(stderr, "pgp: cannot parse encryption keys\n"); exit(2); }
}

// re-encode one packet with a new body (new-format header, same tag)
static void repacket(tmcg_openpgp_byte_t tag, const tmcg_openpgp_octets_t &body, tmcg_openpgp_octets_t &out)
{
	out.clear();
	PGP::PacketTagEncode(tag, out);
	PGP::PacketLengthEncode(body.size(), out);
	out.insert(out.end(), body.begin(), body.end());
}

static const Key &pick_key(const Plan &p)
{
	size_t k = (size_t)p.get("key", 0) % 4;       // 0 RSA, 1 ECDSA, 2 DSA, 3 EdDSA (g_keys[3] is the "other" RSA key)
	return g_keys[k == 3 ? 4 : k];
}

// sign a hash with any of the test keys and encode the signature packet (appended to out)
static gcry_error_t sign_any(const Key &K, const tmcg_openpgp_octets_t &hash, tmcg_openpgp_hashalgo_t H, const tmcg_openpgp_octets_t &trailer,
	const tmcg_openpgp_octets_t &left, tmcg_openpgp_octets_t &out)
{
	gcry_mpi_t r = gcry_mpi_new(2048), s = gcry_mpi_new(2048);
	gcry_error_t rc;
	if (K.algo == TMCG_OPENPGP_PKALGO_RSA) { rc = PGP::AsymmetricSignRSA(hash, K.sexp, H, s); if (!rc) PGP::PacketSigEncode(trailer, left, s, out); }
	else if (K.algo == TMCG_OPENPGP_PKALGO_DSA) { rc = PGP::AsymmetricSignDSA(hash, K.sexp, r, s); if (!rc) PGP::PacketSigEncode(trailer, left, r, s, out); }
	else if (K.algo == TMCG_OPENPGP_PKALGO_EDDSA) { rc = PGP::AsymmetricSignEdDSA(hash, K.sexp, r, s); if (!rc) PGP::PacketSigEncode(trailer, left, r, s, out); }
	else { rc = PGP::AsymmetricSignECDSA(hash, K.sexp, r, s); if (!rc) PGP::PacketSigEncode(trailer, left, r, s, out); }
	gcry_mpi_release(r); gcry_mpi_release(s);
	return rc;
}

struct World
{
	const Plan &plan; Sim S; RunResult res; CerrCapture cap;
	World(const Plan &p) : plan(p), S(p.seed, 4) {}
	void violate(const std::string &prop, const std::string &cls, const std::string &d) { res.violate(prop, cls, "pgp:" + cls, d); }
	void set_clock(int party, time_t now) { S.single_party = party; S.single_skew_s = (int64_t)now - S.base_s - S.now_ms / 1000; }
};

static const tmcg_openpgp_hashalgo_t HASHES[] = { TMCG_OPENPGP_HASHALGO_SHA256, TMCG_OPENPGP_HASHALGO_SHA384, TMCG_OPENPGP_HASHALGO_SHA512,
	TMCG_OPENPGP_HASHALGO_SHA1, TMCG_OPENPGP_HASHALGO_RMD160 };

static void make_doc(World &W, int cls, tmcg_openpgp_octets_t &doc)
{
	size_t len;
	switch (cls % 6) { case 0: len = 0; break; case 1: len = 1; break; case 2: len = 63 + W.S.gen.below(3); break; case 3: len = 1000 + W.S.gen.below(100); break;
		case 4: len = 20000 + W.S.gen.below(100); break; default: len = W.S.gen.below(300); }
	doc.resize(len);
	for (size_t i = 0; i < len; i++) doc[i] = (tmcg_openpgp_byte_t)((cls % 6 == 5) ? "line one\r\nline two\n\rthree \t \n"[i % 29] : W.S.gen.next());
}

static void signature_case(World &W)
{
	const Plan &p = W.plan;
	const Key &K = pick_key(p);
	tmcg_openpgp_hashalgo_t H = HASHES[(size_t)p.get("hash", 0) % 5];
	bool weak = ((size_t)p.get("hash", 0) % 5) >= 3;
	time_t Ts = TK + (time_t)p.get("ts_off", 86400);       // signature creation (may lie before the key's)
	time_t E = (time_t)p.get("expiry", 0);
	time_t now = Ts + (time_t)p.get("now_off", 10);         // the verifier's clock when it checks
	int fault = (int)p.get("fault", 0);
	int64_t fa = p.get("fa", 0), fb = p.get("fb", 0);
	tmcg_openpgp_octets_t doc; make_doc(W, (int)p.get("doc", 0), doc);
	// ---- signer node
	W.set_clock(0, Ts);
	tmcg_openpgp_octets_t trailer, hash, left, sigpkt;
	PGP::PacketSigPrepareDetachedSignature(TMCG_OPENPGP_SIGNATURE_BINARY_DOCUMENT, K.algo, H, Ts, E, "", K.keyid, trailer);
	if (!PGP::BinaryDocumentHash(doc, trailer, H, hash, left)) { W.res.cnt["probe.hash_unavailable"]++; return; }
	gcry_error_t rc = sign_any(K, hash, H, trailer, left, sigpkt);
	if (rc) { W.res.cnt["probe.sign_failed"]++; return; }
	// ---- artefact channel
	tmcg_openpgp_octets_t body; tmcg_openpgp_byte_t tag = PGP::PacketBodyExtract(sigpkt, 0, body);
	if (tag != 2 || body.size() < trailer.size() + 4) { W.violate("C20", "own_signature_packet_unreadable", "emitted signature packet cannot be re-read"); return; }
	size_t hashed_len = trailer.size();
	size_t unhashed_len = ((size_t)body[hashed_len] << 8) + body[hashed_len + 1];
	size_t sigval_off = hashed_len + 2 + unhashed_len; // left 16 bits + MPIs
	tmcg_openpgp_octets_t wire = sigpkt, wdoc = doc;
	const Key *VK = &K;
	bool tampered = false, must_fail = false, unauth_added = false; std::string what = "none";
	// layout of the signature value: left 16 bits, then MPIs (two-octet bit count + payload).  Only the
	// left-16 octets and the MPI payloads are "the signature value"; a flipped bit in a bit count that
	// leaves the octet count unchanged does not alter the value.
	std::vector<std::pair<size_t, size_t> > payload; // (offset in body, length)
	payload.push_back(std::make_pair(sigval_off, (size_t)2));
	for (size_t o = sigval_off + 2; o + 2 <= body.size(); )
	{
		size_t bits = ((size_t)body[o] << 8) + body[o + 1], nb = (bits + 7) / 8;
		if (o + 2 + nb > body.size()) break;
		if (nb) payload.push_back(std::make_pair(o + 2, nb));
		o += 2 + nb;
	}
	bool deterministic_sig = (K.algo == TMCG_OPENPGP_PKALGO_RSA); // DSA/ECDSA nonces come from inside libgcrypt
	if ((fault == 5 || fault == 8) && !deterministic_sig) fault = 1; // position-dependent outcomes only with reproducible bytes
	switch (fault)
	{
		case 1: { size_t off = (size_t)fa % hashed_len; body[off] ^= (tmcg_openpgp_byte_t)(1 << (fb % 8)); repacket(2, body, wire); tampered = must_fail = true; what = "bit flipped in a hashed field (offset " + std::to_string(off) + ")"; W.res.cnt["fault.art_flip_hashed"]++; break; }
		case 2: { const std::pair<size_t, size_t> &pl = payload[(size_t)(fa >> 8) % payload.size()]; size_t off = pl.first + (size_t)fa % pl.second;
			body[off] ^= (tmcg_openpgp_byte_t)(1 << (fb % 8)); repacket(2, body, wire); tampered = must_fail = true; what = "bit flipped in left16/signature value"; W.res.cnt["fault.art_flip_sigvalue"]++; break; }
		case 3: if (doc.empty()) { wdoc.push_back(0); } else { wdoc[(size_t)fa % doc.size()] ^= (tmcg_openpgp_byte_t)(1 << (fb % 8)); } tampered = must_fail = true; what = "document altered"; W.res.cnt["fault.art_flip_document"]++; break;
		case 4: VK = (K.algo == TMCG_OPENPGP_PKALGO_RSA) ? &g_keys[3] : NULL; if (!VK) { VK = &K; break; } tampered = must_fail = true; what = "checked against another key"; W.res.cnt["fault.wrong_key"]++; break;
		case 5: if (unhashed_len) { size_t off = hashed_len + 2 + (size_t)fa % unhashed_len; body[off] ^= (tmcg_openpgp_byte_t)(1 << (fb % 8)); repacket(2, body, wire); tampered = true; what = "bit flipped in the unhashed area"; W.res.cnt["fault.art_flip_unhashed"]++; } break;
		case 6: { size_t keep = (size_t)fa % (sigval_off + 2); if (p.get("enumerated", 0)) keep = (size_t)fa % body.size(); body.resize(keep); repacket(2, body, wire); tampered = must_fail = true; what = "packet body truncated to " + std::to_string(keep) + " octets (length re-encoded)"; W.res.cnt["fault.art_trunc_reencoded"]++; break; }
		case 7: { size_t keep = (size_t)fa % (wire.size() - 8); wire.resize(keep); tampered = must_fail = true; what = "artefact truncated to " + std::to_string(keep) + " octets"; W.res.cnt["fault.art_trunc"]++; break; }
		case 8: { size_t header_len = sigpkt.size() - body.size();
			size_t off = (size_t)fa % wire.size(); wire[off] ^= (tmcg_openpgp_byte_t)(1 << (fb % 8)); tampered = true;
			if (off >= header_len)
			{
				size_t bo = off - header_len;
				if (bo < hashed_len) must_fail = true;
				for (size_t k = 0; k < payload.size(); k++) if (bo >= payload[k].first && bo < payload[k].first + payload[k].second) must_fail = true;
			}
			what = "bit flipped at wire offset " + std::to_string(off); W.res.cnt["fault.art_flip_any"]++; break; }
		case 9: {
			// a well-formed sub-packet appended to the *unhashed* area: nothing in there is authenticated, so it must
			// not change what the hashed fields say (creation time, expiration, key expiration, key flags, revocable)
			static const tmcg_openpgp_byte_t types[] = { 2, 3, 9, 27, 7 };
			tmcg_openpgp_byte_t ty = types[(size_t)fa % 5]; tmcg_openpgp_octets_t sp;
			uint32_t v = (fb & 1) ? 0x70000000u : (uint32_t)(now - 5 - (fb & 6));  // far-away life time or "created just now"
			if (ty == 2) v = (uint32_t)(now - 5);
			if (ty == 27 || ty == 7) { sp.push_back(2); sp.push_back(ty); sp.push_back((tmcg_openpgp_byte_t)(fb & 0xff)); }
			else { sp.push_back(5); sp.push_back(ty); sp.push_back((tmcg_openpgp_byte_t)(v >> 24)); sp.push_back((tmcg_openpgp_byte_t)(v >> 16)); sp.push_back((tmcg_openpgp_byte_t)(v >> 8)); sp.push_back((tmcg_openpgp_byte_t)v); }
			size_t at = hashed_len + 2 + unhashed_len, nl = unhashed_len + sp.size();
			body.insert(body.begin() + at, sp.begin(), sp.end());
			body[hashed_len] = (tmcg_openpgp_byte_t)(nl >> 8); body[hashed_len + 1] = (tmcg_openpgp_byte_t)nl;
			repacket(2, body, wire); tampered = true; unauth_added = true;
			what = "sub-packet of type " + std::to_string((int)ty) + " appended to the unhashed area"; W.res.cnt["fault.art_unhashed_subpacket"]++; break; }
	}
	// ---- verifier node (its own clock)
	W.set_clock(1, now);
	TMCG_OpenPGP_Signature *sig = NULL;
	bool parsed = PGP::SignatureParse(wire, 0, sig);
	bool good = parsed && sig && sig->Good();
	bool timevalid = false, verified = false;
	if (good)
	{
		timevalid = sig->CheckValidity(TK, 0);
		// a clock jump between the two steps must not matter for the cryptographic check
		if (p.get("jump", 0)) W.set_clock(1, now + (time_t)p.get("jump", 0));
		verified = sig->VerifyData(VK->sexp, wdoc, 0);
	}
	if (parsed && sig) delete sig; // on failure the library has already released the object (the pointer is left dangling)
	bool accepted = good && timevalid && verified;
	W.S.hist.add(H_RESULT, (parsed ? 1 : 0) | (good ? 2 : 0) | (timevalid ? 4 : 0) | (verified ? 8 : 0), fault);
	std::ostringstream ctx; ctx << "key=" << K.name << " hash=" << (int)H << " doc=" << doc.size() << " Ts-Tk=" << (long)(Ts - TK) << " expiry=" << (long)E << " now-Ts=" << (long)(now - Ts) << " fault=" << what;
	// reference model of the validity rules
	bool model_time = true;
	if (E && now > Ts + E) model_time = false;
	if (Ts < TK) model_time = false;
	if (Ts > now + 25 * 3600) model_time = false;
	if (weak) model_time = false;
	W.res.cnt[model_time ? "probe.sig_time_valid" : "probe.sig_time_invalid"]++;
	if (!tampered)
	{
		if (!good) W.violate("C20", "own_signature_unparsable", "signature made by the library does not parse; " + ctx.str());
		else if (timevalid != model_time) W.violate("C20", "validity_rule_mismatch", std::string("CheckValidity returned ") + (timevalid ? "true" : "false") + " but the stated rules (expiry, key age, far future, weak hash) say " + (model_time ? "valid" : "invalid") + "; " + ctx.str());
		else if (!verified) W.violate("C20", "own_signature_rejected", "untampered signature does not verify under the matching key; " + ctx.str());
	}
	else if (must_fail)
	{
		if (good && verified) W.violate("C20", "tampered_signature_verifies", "verification succeeded although " + what + "; " + ctx.str());
	}
	else if (unauth_added)
	{
		// refusing such a packet is fine; accepting it is only right if the authenticated fields say so
		if (accepted && !model_time) W.violate("C20", "unhashed_subpacket_overrides_hashed", "signature accepted although the hashed fields make it invalid at the verifier's time; " + ctx.str());
		W.res.cnt[accepted ? "probe.unhashed_subpacket_accepted" : "probe.unhashed_subpacket_refused"]++;
	}
	else W.res.cnt[accepted ? "probe.unhashed_flip_still_accepted" : "probe.unhashed_flip_refused"]++;
}

static void message_case(World &W)
{
	const Plan &p = W.plan;
	int fault = (int)p.get("fault", 0); int64_t fa = p.get("fa", 0), fb = p.get("fb", 0);
	W.set_clock(0, TK + 86400);
	tmcg_openpgp_octets_t data; make_doc(W, (int)p.get("doc", 0), data);
	// the packet decoder deliberately refuses a literal data packet without data ("error: no data",
	// PacketDecodeTag11), so an empty plaintext cannot make the round trip - observation O3, not asserted
	if (data.empty()) data.push_back(0x2a);
	tmcg_openpgp_octets_t lit, prefix, enc, hash, mdc, mdc_hashing, litmdc, pkt;
	tmcg_openpgp_secure_octets_t seskey;
	PGP::PacketLitEncode(data, lit);
	if (PGP::SymmetricEncryptAES256(lit, seskey, prefix, true, enc)) { W.res.cnt["probe.encrypt_failed"]++; return; }
	enc.clear();
	mdc_hashing.insert(mdc_hashing.end(), prefix.begin(), prefix.end());
	mdc_hashing.insert(mdc_hashing.end(), lit.begin(), lit.end());
	mdc_hashing.push_back(0xD3); mdc_hashing.push_back(0x14);
	PGP::HashCompute(TMCG_OPENPGP_HASHALGO_SHA1, mdc_hashing, hash);
	PGP::PacketMdcEncode(hash, mdc);
	bool must_fail = false; std::string what = "none";
	litmdc = lit;
	if (fault != 3) litmdc.insert(litmdc.end(), mdc.begin(), mdc.end());
	else { must_fail = true; what = "integrity tag (MDC) dropped"; W.res.cnt["fault.art_droptag"]++; }
	seskey.clear();
	if (PGP::SymmetricEncryptAES256(litmdc, seskey, prefix, false, enc)) { W.res.cnt["probe.encrypt_failed"]++; return; }
	if (fault == 4) { PGP::PacketSedEncode(enc, pkt); must_fail = true; what = "data sent without integrity protection (SED packet)"; W.res.cnt["fault.unprotected_packet"]++; }
	else PGP::PacketSeipdEncode(enc, pkt);
	tmcg_openpgp_octets_t body; tmcg_openpgp_byte_t tag = PGP::PacketBodyExtract(pkt, 0, body);
	tmcg_openpgp_secure_octets_t key = seskey;
	switch (fault)
	{
		case 1: { size_t lo = (tag == 18) ? 1 : 0; if (body.size() <= lo) break; size_t off = lo + (size_t)fa % (body.size() - lo); body[off] ^= (tmcg_openpgp_byte_t)(1 << (fb % 8)); repacket(tag, body, pkt); must_fail = true; what = "ciphertext bit flipped at offset " + std::to_string(off); W.res.cnt["fault.art_flip_ciphertext"]++; break; }
		case 2: { size_t keep = (size_t)fa % body.size(); body.resize(keep); repacket(tag, body, pkt); must_fail = true; what = "ciphertext truncated to " + std::to_string(keep); W.res.cnt["fault.art_trunc_reencoded"]++; break; }
		case 5: if (!key.empty()) { key[(size_t)fa % key.size()] ^= (tmcg_openpgp_byte_t)(1 << (fb % 8)); must_fail = true; what = "wrong session key"; W.res.cnt["fault.wrong_key"]++; } break;
		case 6: { size_t keep = (size_t)fa % pkt.size(); pkt.resize(keep); must_fail = true; what = "artefact truncated"; W.res.cnt["fault.art_trunc"]++; break; }
	}
	W.set_clock(1, TK + 86400 + 5);
	TMCG_OpenPGP_Message *msg = NULL;
	bool parsed = PGP::MessageParse(pkt, 0, msg);
	tmcg_openpgp_octets_t dec; bool decrypted = false, same = false;
	if (parsed && msg)
	{
		decrypted = msg->Decrypt(key, 0, dec);
		if (decrypted)
		{
			TMCG_OpenPGP_Message *inner = NULL;
			if (PGP::MessageParse(dec, 0, inner) && inner) { same = (data == inner->literal_data); }
			if (inner) delete inner;
		}
	}
	if (msg) delete msg;
	W.S.hist.add(H_RESULT, (parsed ? 1 : 0) | (decrypted ? 2 : 0) | (same ? 4 : 0), fault);
	std::ostringstream ctx; ctx << "plaintext=" << data.size() << " fault=" << what;
	if (!must_fail)
	{
		if (!parsed || !decrypted) W.violate("C20", "own_message_not_decrypted", "message made by the library does not decrypt; " + ctx.str());
		else if (!same) W.violate("C20", "plaintext_differs", "decryption returned other data than was encrypted; " + ctx.str());
	}
	else if (decrypted) W.violate("C20", "tampered_message_decrypts", "decryption succeeded although " + what + "; " + ctx.str());
}

static void aead_case(World &W)
{
	const Plan &p = W.plan;
	int fault = (int)p.get("fault", 0); int64_t fa = p.get("fa", 0), fb = p.get("fb", 0);
	tmcg_openpgp_aeadalgo_t A = (p.get("aead", 0) % 2) ? TMCG_OPENPGP_AEADALGO_EAX : TMCG_OPENPGP_AEADALGO_OCB;
	tmcg_openpgp_byte_t cs = (tmcg_openpgp_byte_t)(p.get("chunk", 0) % 3); // chunk size 2^(cs+6): 64, 128, 256 octets
	size_t chunk = (size_t)1 << (cs + 6);
	static const long lens[] = { 0, 1, -1, 0, 1, 5 }; // relative to k*chunk
	size_t k = (size_t)std::min<int64_t>(400, std::max<int64_t>(0, p.get("nchunks", 1))); // rarely above 255: the chunk index then needs a second octet of the nonce
	long L = (long)(k * chunk) + lens[(size_t)p.get("doc", 0) % 6]; if (L < 0) L = 0;
	tmcg_openpgp_octets_t in((size_t)L), ad, iv, enc, out;
	for (size_t i = 0; i < in.size(); i++) in[i] = (tmcg_openpgp_byte_t)W.S.gen.next();
	ad.push_back(0xD4); ad.push_back(0x01); ad.push_back(TMCG_OPENPGP_SKALGO_AES256); ad.push_back(A); ad.push_back(cs);
	tmcg_openpgp_secure_octets_t seskey;
	W.set_clock(0, TK + 86400);
	if (PGP::SymmetricEncryptAEAD(in, seskey, TMCG_OPENPGP_SKALGO_AES256, A, cs, ad, 0, iv, enc)) { W.res.cnt["probe.aead_encrypt_failed"]++; return; }
	bool must_fail = false; std::string what = "none";
	tmcg_openpgp_octets_t ad2 = ad, iv2 = iv;
	const size_t taglen = 16;
	switch (fault)
	{
		case 1: if (!enc.empty()) { size_t off = (size_t)fa % enc.size(); enc[off] ^= (tmcg_openpgp_byte_t)(1 << (fb % 8)); must_fail = true; what = "ciphertext/tag bit flipped at " + std::to_string(off); W.res.cnt["fault.art_flip_ciphertext"]++; } break;
		case 2: if (enc.size() >= taglen) { enc.resize(enc.size() - taglen); must_fail = true; what = "final tag dropped"; W.res.cnt["fault.art_droptag"]++; } break;
		case 3: { size_t full = chunk + taglen; if (enc.size() >= 2 * full + taglen) { std::swap_ranges(enc.begin(), enc.begin() + full, enc.begin() + full); must_fail = true; what = "first two chunks exchanged"; W.res.cnt["fault.art_reorder"]++; } break; }
		case 4: ad2[(size_t)fa % ad2.size()] ^= (tmcg_openpgp_byte_t)(1 << (fb % 8)); must_fail = true; what = "associated data altered"; W.res.cnt["fault.art_flip_ad"]++; break;
		case 5: if (!iv2.empty()) { iv2[(size_t)fa % iv2.size()] ^= (tmcg_openpgp_byte_t)(1 << (fb % 8)); must_fail = true; what = "nonce altered"; W.res.cnt["fault.art_flip_iv"]++; } break;
		case 6: { size_t full = chunk + taglen; if (enc.size() >= 2 * full + taglen) { enc.erase(enc.begin() + full, enc.begin() + 2 * full); must_fail = true; what = "second chunk removed"; W.res.cnt["fault.art_dropchunk"]++; } break; }
		case 7: if (!enc.empty()) { enc.resize((size_t)fa % enc.size()); must_fail = true; what = "ciphertext truncated"; W.res.cnt["fault.art_trunc"]++; } break;
	}
	W.set_clock(1, TK + 86400 + 5);
	gcry_error_t rc = PGP::SymmetricDecryptAEAD(enc, seskey, TMCG_OPENPGP_SKALGO_AES256, A, cs, iv2, ad2, 0, out);
	bool ok = (rc == 0);
	bool same = ok && (in == out);
	W.S.hist.add(H_RESULT, (ok ? 1 : 0) | (same ? 2 : 0), fault);
	std::ostringstream ctx; ctx << "aead=" << (int)A << " chunk=" << chunk << " plaintext=" << in.size() << " fault=" << what;
	if (!must_fail) { if (!ok) W.violate("C20", "own_aead_not_decrypted", "AEAD data made by the library does not decrypt; " + ctx.str()); else if (!same) W.violate("C20", "plaintext_differs", "AEAD decryption returned other data; " + ctx.str()); }
	else if (ok) W.violate("C20", "tampered_message_decrypts", "AEAD decryption succeeded although " + what + "; " + ctx.str());
}

// ---- structure-aware damage of whole artefacts (C12 for the OpenPGP parsers, certifications for C20)
struct Pkt { tmcg_openpgp_byte_t tag; tmcg_openpgp_octets_t body; };

static bool split_packets(const tmcg_openpgp_octets_t &in, std::vector<Pkt> &out)
{
	// new-format headers with one-, two- or five-octet lengths, as the library's encoders emit them
	size_t o = 0;
	while (o < in.size())
	{
		if ((in[o] & 0xC0) != 0xC0 || o + 1 >= in.size()) return false;
		Pkt p; p.tag = in[o] & 0x3F; o++;
		size_t len;
		if (in[o] < 192) { len = in[o]; o += 1; }
		else if (in[o] < 224) { if (o + 1 >= in.size()) return false; len = ((size_t)(in[o] - 192) << 8) + in[o + 1] + 192; o += 2; }
		else if (in[o] == 255) { if (o + 4 >= in.size()) return false; len = ((size_t)in[o + 1] << 24) + ((size_t)in[o + 2] << 16) + ((size_t)in[o + 3] << 8) + in[o + 4]; o += 5; }
		else return false;
		if (o + len > in.size()) return false;
		p.body.assign(in.begin() + o, in.begin() + o + len); o += len;
		out.push_back(p);
	}
	return true;
}

static void join_packets(const std::vector<Pkt> &in, tmcg_openpgp_octets_t &out)
{
	out.clear();
	for (size_t i = 0; i < in.size(); i++) { tmcg_openpgp_octets_t t; repacket(in[i].tag, in[i].body, t); out.insert(out.end(), t.begin(), t.end()); }
}

static void build_keyblock(const Key &K, time_t Ts, tmcg_openpgp_octets_t &all, std::string &uidstr, bool with_subkey = false)
{
	uidstr = "Test <test@example.org>";
	tmcg_openpgp_octets_t uid, trailer, hash, left, sigpkt, flags, empty;
	PGP::PacketUidEncode(uidstr, uid);
	flags.push_back(0x01 | 0x02);
	PGP::PacketSigPrepareSelfSignature(TMCG_OPENPGP_SIGNATURE_POSITIVE_CERTIFICATION, K.algo, TMCG_OPENPGP_HASHALGO_SHA256, Ts, 0, flags, K.keyid, false, trailer);
	PGP::CertificationHash(K.pub_hashing, uidstr, empty, trailer, TMCG_OPENPGP_HASHALGO_SHA256, hash, left);
	(void)sign_any(K, hash, TMCG_OPENPGP_HASHALGO_SHA256, trailer, left, sigpkt);
	all = K.pub; all.insert(all.end(), uid.begin(), uid.end()); all.insert(all.end(), sigpkt.begin(), sigpkt.end());
	if (with_subkey)
	{
		// an ElGamal encryption subkey with its binding signature by the primary key
		gcry_mpi_t ep = NULL, eg = NULL, ey = NULL;
		if (!gcry_sexp_extract_param(g_elg, NULL, "pgy", &ep, &eg, &ey, NULL))
		{
			tmcg_openpgp_octets_t sub, sub_hashing, tr2, h2, l2, subsig, sflags;
			PGP::PacketSubEncode(TK, TMCG_OPENPGP_PKALGO_ELGAMAL, ep, eg, eg, ey, sub);
			PGP::PacketBodyExtract(sub, 0, sub_hashing);
			sflags.push_back(0x04 | 0x08);
			PGP::PacketSigPrepareSelfSignature(TMCG_OPENPGP_SIGNATURE_SUBKEY_BINDING, K.algo, TMCG_OPENPGP_HASHALGO_SHA256, Ts, 0, sflags, K.keyid, false, tr2);
			PGP::KeyHash(K.pub_hashing, sub_hashing, tr2, TMCG_OPENPGP_HASHALGO_SHA256, h2, l2);
			if (!sign_any(K, h2, TMCG_OPENPGP_HASHALGO_SHA256, tr2, l2, subsig)) { all.insert(all.end(), sub.begin(), sub.end()); all.insert(all.end(), subsig.begin(), subsig.end()); }
			gcry_mpi_release(ep); gcry_mpi_release(eg); gcry_mpi_release(ey);
		}
	}
}

static void artefact_case(World &W)
{
	const Plan &p = W.plan;
	const Key &K = pick_key(p);
	int art = (int)(p.get("art", 0) % 3);          // 0 key block (key, user ID, certification), 1 detached signature, 2 SEIPD message
	int dmg = (int)(p.get("fault", 0) % 7);        // 0 none, 1 body truncated (re-encoded), 2 body byte flipped, 3 packet dropped, 4 packet duplicated, 5 two packets exchanged, 6 body extended
	int64_t fa = p.get("fa", 0), fb = p.get("fb", 0), fc = p.get("fc", 0);
	time_t Ts = TK + 86400;
	W.set_clock(0, Ts);
	tmcg_openpgp_octets_t all, doc; std::string uidstr;
	tmcg_openpgp_secure_octets_t seskey;
	make_doc(W, 2, doc);
	bool with_sub = (art == 0) && p.get("subkey", 0) != 0;
	if (art == 0) build_keyblock(K, Ts, all, uidstr, with_sub);
	else if (art == 1)
	{
		tmcg_openpgp_octets_t trailer, hash, left;
		PGP::PacketSigPrepareDetachedSignature(TMCG_OPENPGP_SIGNATURE_BINARY_DOCUMENT, K.algo, TMCG_OPENPGP_HASHALGO_SHA256, Ts, 0, "", K.keyid, trailer);
		PGP::BinaryDocumentHash(doc, trailer, TMCG_OPENPGP_HASHALGO_SHA256, hash, left);
		(void)sign_any(K, hash, TMCG_OPENPGP_HASHALGO_SHA256, trailer, left, all);
	}
	else
	{
		tmcg_openpgp_octets_t lit, prefix, enc, hash, mdc, mdc_hashing, litmdc;
		PGP::PacketLitEncode(doc, lit);
		if (PGP::SymmetricEncryptAES256(lit, seskey, prefix, true, enc)) return;
		enc.clear();
		mdc_hashing.insert(mdc_hashing.end(), prefix.begin(), prefix.end()); mdc_hashing.insert(mdc_hashing.end(), lit.begin(), lit.end());
		mdc_hashing.push_back(0xD3); mdc_hashing.push_back(0x14);
		PGP::HashCompute(TMCG_OPENPGP_HASHALGO_SHA1, mdc_hashing, hash); PGP::PacketMdcEncode(hash, mdc);
		litmdc = lit; litmdc.insert(litmdc.end(), mdc.begin(), mdc.end());
		seskey.clear();
		if (PGP::SymmetricEncryptAES256(litmdc, seskey, prefix, false, enc)) return;
		PGP::PacketSeipdEncode(enc, all);
	}
	if (all.empty()) { W.res.cnt["probe.sign_failed"]++; return; }
	std::vector<Pkt> pk;
	if (!split_packets(all, pk) || pk.empty()) { W.violate("C20", "own_artefact_not_splittable", "emitted artefact does not consist of new-format packets"); return; }
	bool damaged = false, trailing_only = false; std::string what = "none";
	size_t pi = (size_t)fa % pk.size();
	switch (dmg)
	{
		case 1: { size_t keep = pk[pi].body.empty() ? 0 : (size_t)fb % pk[pi].body.size(); pk[pi].body.resize(keep); damaged = true; what = "body of packet " + std::to_string(pi) + " (tag " + std::to_string((int)pk[pi].tag) + ") truncated to " + std::to_string(keep); W.res.cnt["fault.art_trunc_reencoded"]++; break; }
		case 2: if (!pk[pi].body.empty()) { size_t off = (size_t)fb % pk[pi].body.size(); pk[pi].body[off] ^= (tmcg_openpgp_byte_t)(1 << (fc % 8)); damaged = true; what = "bit flipped in packet " + std::to_string(pi) + " (tag " + std::to_string((int)pk[pi].tag) + ") at " + std::to_string(off); W.res.cnt["fault.art_flip_any"]++; } break;
		case 3: if (pk.size() > 1) { pk.erase(pk.begin() + pi); damaged = true; what = "packet " + std::to_string(pi) + " dropped"; W.res.cnt["fault.art_droppacket"]++; } break;
		case 4: pk.insert(pk.begin() + pi, pk[pi]); damaged = true; what = "packet " + std::to_string(pi) + " duplicated"; W.res.cnt["fault.art_duppacket"]++; break;
		case 5: if (pk.size() > 1) { std::swap(pk[pi], pk[(pi + 1) % pk.size()]); damaged = true; what = "packets exchanged"; W.res.cnt["fault.art_reorder"]++; } break;
		case 6: { size_t add = 1 + (size_t)fb % 300; for (size_t i = 0; i < add; i++) pk[pi].body.push_back((tmcg_openpgp_byte_t)(fc + i)); damaged = true; what = "body of packet " + std::to_string(pi) + " extended by " + std::to_string(add); W.res.cnt["fault.art_extend_reencoded"]++; break; }
	}
	// a key block recomposed from its own packets: the primary key first, then three to eight seeded picks from
	// {key, user ID, certification, subkey, binding signature, subkey / key with unknown algorithm, user attribute stub}
	if (art == 0 && p.get("recompose", 0) && pk.size() >= 3)
	{
		Rng er(derive((uint64_t)fa * 7919ULL + (uint64_t)fb * 131 + (uint64_t)fc, 78));
		std::vector<Pkt> pool = pk, seq;
		Pkt sub99, pub99, uat; bool have_sub = false;
		for (size_t q = 0; q < pool.size(); q++) if (pool[q].tag == 14 && !have_sub) { sub99 = pool[q]; have_sub = true; }
		if (!have_sub) { sub99 = pool[0]; sub99.tag = 14; }
		if (sub99.body.size() > 5) sub99.body[5] = 99;
		pub99 = pool[0]; if (pub99.body.size() > 5) pub99.body[5] = 99;
		uat.tag = 17; uat.body.push_back(0x03); uat.body.push_back(0x01); uat.body.push_back(0x00); uat.body.push_back(0x00);
		pool.push_back(sub99); pool.push_back(pub99); pool.push_back(uat);
		seq.push_back(pk[0]);
		size_t len = 3 + (size_t)er.below(6);
		for (size_t q = 0; q < len; q++) seq.push_back(pool[(size_t)er.below(pool.size())]);
		pk = seq; damaged = true; dmg = 8; what = "key block recomposed from its own packets"; W.res.cnt["fault.art_recomposed"]++;
	}
	// further seeded edits of the packet sequence (any packet copied to any place, dropped, exchanged with any
	// other, a key packet given an unknown algorithm or version): packet orders no single edit produces
	size_t nedits = (size_t)(p.get("edits", 0) % 5);
	if (nedits)
	{
		Rng er(derive((uint64_t)fa * 1000003ULL + (uint64_t)fb * 31 + (uint64_t)fc, 77));
		for (size_t e = 0; e < nedits && !pk.empty(); e++)
		{
			size_t a = (size_t)er.below(pk.size()), b = (size_t)er.below(pk.size() + 1); unsigned kind = (unsigned)er.below(5);
			if (kind == 0 && pk.size() < 12) pk.insert(pk.begin() + b, pk[a]);
			else if (kind == 1 && pk.size() > 1) pk.erase(pk.begin() + a);
			else if (kind == 2) std::swap(pk[a], pk[b % pk.size()]);
			else if (kind == 3) { for (size_t q = 0; q < pk.size(); q++) { size_t z = (a + q) % pk.size(); if ((pk[z].tag == 6 || pk[z].tag == 14) && pk[z].body.size() > 5) { pk[z].body[5] = (tmcg_openpgp_byte_t)(er.below(2) ? 99 : er.below(256)); break; } } }
			else { for (size_t q = 0; q < pk.size(); q++) { size_t z = (a + q) % pk.size(); if (!pk[z].body.empty()) { pk[z].body[0] = (tmcg_openpgp_byte_t)er.below(7); break; } } }
		}
		damaged = true; dmg = 8; what = std::to_string(nedits) + " seeded edits of the packet sequence"; W.res.cnt["fault.art_sequence_edits"]++;
	}
	tmcg_openpgp_octets_t wire; join_packets(pk, wire);
	if (!damaged && wire != all) { W.violate("C20", "reencoding_differs", "re-encoding the packets of an emitted artefact changes it"); return; }
	// ---- optional ASCII armor around the artefact, damaged as text
	int adm = (int)(p.get("armor", 0) % 8);        // 0 no armor, 1 armor untouched, 2 cut, 3 character replaced, 4 line deleted, 5 line duplicated, 6 radix-64 character of the body replaced, 7 checksum character replaced
	if (adm)
	{
		tmcg_openpgp_armor_t at = (art == 0) ? TMCG_OPENPGP_ARMOR_PUBLIC_KEY_BLOCK : ((art == 1) ? TMCG_OPENPGP_ARMOR_SIGNATURE : TMCG_OPENPGP_ARMOR_MESSAGE);
		std::string txt; PGP::ArmorEncode(at, wire, txt);
		std::vector<std::string> lines; { std::string l; std::istringstream is(txt); while (std::getline(is, l)) lines.push_back(l); }
		// body lines: between the blank line after the headers and the checksum line that starts with '='
		size_t b0 = 0, b1 = 0, crc = 0;
		for (size_t i = 1; i < lines.size(); i++) { std::string t = lines[i]; while (!t.empty() && (t[t.size() - 1] == '\r')) t.erase(t.size() - 1); if (t.empty() && !b0) b0 = i + 1; if (!t.empty() && t[0] == '=' && b0 && !crc) { crc = i; b1 = i; } }
		static const char r64[] = "ABCDEFGHIJKLMNOPQRSTUVWXYZabcdefghijklmnopqrstuvwxyz0123456789+/";
		bool adamaged = false; std::string awhat = "armor untouched";
		switch (adm)
		{
			case 2: if (!txt.empty()) { txt.resize((size_t)fc * 131 % txt.size()); adamaged = true; awhat = "armor cut to " + std::to_string(txt.size()) + " characters"; W.res.cnt["fault.armor_cut"]++; } break;
			case 3: if (!txt.empty()) { size_t o = (size_t)(fb * 7 + fc) % txt.size(); char c = (char)(0x20 + (fc * 11 + fb) % 95); if (txt[o] != c) { txt[o] = c; adamaged = true; awhat = "armor character " + std::to_string(o) + " replaced"; W.res.cnt["fault.armor_char"]++; } } break;
			case 4: if (lines.size() > 1) { lines.erase(lines.begin() + (size_t)(fb + fc) % lines.size()); txt.clear(); for (size_t i = 0; i < lines.size(); i++) txt += lines[i] + "\n"; adamaged = true; awhat = "armor line deleted"; W.res.cnt["fault.armor_line_deleted"]++; } break;
			case 5: if (!lines.empty()) { size_t i = (size_t)(fb + fc) % lines.size(); lines.insert(lines.begin() + i, lines[i]); txt.clear(); for (size_t q = 0; q < lines.size(); q++) txt += lines[q] + "\n"; adamaged = true; awhat = "armor line duplicated"; W.res.cnt["fault.armor_line_duplicated"]++; } break;
			case 6: if (b0 && b1 > b0)
				{
					size_t li = b0 + (size_t)fb % (b1 - b0); std::string &l = lines[li];
					size_t n = 0; for (size_t i = 0; i < l.size(); i++) if (strchr(r64, l[i]) && l[i]) n++;
					if (n) { size_t want = (size_t)fc % n, seen = 0; for (size_t i = 0; i < l.size(); i++) if (strchr(r64, l[i]) && l[i]) { if (seen++ == want) { char c = r64[(size_t)(strchr(r64, l[i]) - r64 + 1 + fc % 63) % 64]; l[i] = c; break; } }
						txt.clear(); for (size_t q = 0; q < lines.size(); q++) txt += lines[q] + "\n"; adamaged = true; awhat = "one radix-64 character of body line " + std::to_string(li - b0) + " replaced"; W.res.cnt["fault.armor_body_char"]++; }
				} break;
			case 7: if (crc && lines[crc].size() >= 5)
				{
					size_t i = 1 + (size_t)fc % 4; const char *q = strchr(r64, lines[crc][i]);
					if (q && *q) { lines[crc][i] = r64[(size_t)(q - r64 + 1 + fb % 63) % 64]; txt.clear(); for (size_t z = 0; z < lines.size(); z++) txt += lines[z] + "\n"; adamaged = true; awhat = "checksum character replaced"; W.res.cnt["fault.armor_crc_char"]++; }
				} break;
		}
		tmcg_openpgp_octets_t back;
		tmcg_openpgp_armor_t got = PGP::ArmorDecode(txt, back);
		W.res.cnt["probe.armor_decodes"]++;
		if (!adamaged)
		{
			if (got != at || back != wire) { W.violate("C20", "armor_roundtrip", "ArmorDecode(ArmorEncode(x)) differs from x, " + std::to_string(wire.size()) + " octets, type " + std::to_string((int)at)); return; }
		}
		else
		{
			if (got == TMCG_OPENPGP_ARMOR_UNKNOWN) { W.res.cnt["probe.armor_refused"]++; W.S.hist.add(H_RESULT, (art == 2 || K.algo == TMCG_OPENPGP_PKALGO_RSA || K.algo == TMCG_OPENPGP_PKALGO_EDDSA) ? 50 : 0, (uint64_t)adm, (uint64_t)art); return; }
			// a changed radix-64 character of the body or of the checksum is a checksum mismatch: it must not be decoded
			// (a character of the last quantum carries unused bits: replacing it can leave the octets unchanged)
			if ((adm == 6 || adm == 7) && got == at && back != wire && !(back.size() > wire.size() && std::equal(wire.begin(), wire.end(), back.begin()))) { W.violate("C20", "armor_damage_undetected", awhat + " and the armor still decodes, to other octets, type " + std::to_string((int)at)); return; }
			// damage to the checksum marker turns the checksum characters into trailing data behind the last packet
			// (the checksum is optional): the packets themselves are intact, so neither acceptance nor refusal is judged
			if (back.size() > wire.size() && std::equal(wire.begin(), wire.end(), back.begin())) { trailing_only = true; W.res.cnt["probe.armor_trailing_octets"]++; }
			else if (back != wire) { damaged = true; dmg = 7; what = awhat; }
		}
		wire = back;
	}
	// ---- receiving node
	W.set_clock(1, Ts + 10);
	int outcome = 0;
	if (art == 0)
	{
		TMCG_OpenPGP_Pubkey *pub = NULL; TMCG_OpenPGP_Keyring ring;
		bool ok = PGP::PublicKeyBlockParse(wire, 0, pub);
		bool self = false;
		if (ok && pub) { self = pub->CheckSelfSignatures(&ring, 0); outcome = self ? 3 : 1; if (self) { (void)pub->Weak(0); } }
		if (ok && pub) delete pub; // on failure the library has already released the object
		// the only certification covers the key packet and the user ID: a changed bit in either must leave no valid self-signature
		if (trailing_only) { /* not judged */ }
		else if (damaged && dmg == 2 && pi <= 1 && ok && self) W.violate("C20", "tampered_keyblock_selfsig_valid", "self-signature check succeeds although " + what + "; key=" + std::string(K.name));
		if (!trailing_only && damaged && dmg == 3 && pi == 2 && ok && self) W.violate("C20", "uncertified_keyblock_valid", "self-signature check succeeds although the certification was removed; key=" + std::string(K.name));
		if (!trailing_only && !damaged && !(ok && self)) W.violate("C20", "own_keyblock_rejected", "key block made by the library fails PublicKeyBlockParse/CheckSelfSignatures; key=" + std::string(K.name));
	}
	else if (art == 1)
	{
		TMCG_OpenPGP_Signature *sig = NULL;
		bool ok = PGP::SignatureParse(wire, 0, sig);
		bool v = false;
		if (ok && sig && sig->Good()) { (void)sig->CheckValidity(TK, 0); v = sig->VerifyData(K.sexp, doc, 0); }
		if (ok && sig) delete sig;
		outcome = (ok ? 1 : 0) | (v ? 2 : 0);
		if (!trailing_only && !damaged && !v) W.violate("C20", "own_signature_rejected", "untampered signature does not verify; key=" + std::string(K.name));
	}
	else
	{
		TMCG_OpenPGP_Message *msg = NULL; tmcg_openpgp_octets_t dec;
		bool ok = PGP::MessageParse(wire, 0, msg);
		bool d = false;
		if (ok && msg) d = msg->Decrypt(seskey, 0, dec);
		if (msg) delete msg;
		outcome = (ok ? 1 : 0) | (d ? 2 : 0);
		if (!trailing_only && !damaged && !d) W.violate("C20", "own_message_not_decrypted", "message made by the library does not decrypt");
		if (!trailing_only && damaged && d && dmg != 4 && dmg != 3 && dmg != 8) W.violate("C20", "tampered_message_decrypts", "decryption succeeded although " + what);
	}
	// DSA / ECDSA signatures inside the artefact have lengths that libgcrypt's own randomness decides: where a
	// position-dependent damage lands, and with it how far the parsers get, is then not a function of the seed
	bool reproducible = !damaged || art == 2 || K.algo == TMCG_OPENPGP_PKALGO_RSA || K.algo == TMCG_OPENPGP_PKALGO_EDDSA;
	W.S.hist.add(H_RESULT, reproducible ? (uint64_t)outcome : 0, (uint64_t)dmg, (uint64_t)art);
}

// ---- documents that live in files (the signer hashes a file, the file is stored or travels, the verifier hashes a file)
static std::string scratch_file()
{
	static std::string name;
	if (name.empty()) { (void)mkdir("build", 0777); (void)mkdir("build/scratch", 0777); name = "build/scratch/pgp-" + std::to_string((long)getpid()) + ".doc"; }
	return name;
}

static bool put_file(const std::string &fn, const tmcg_openpgp_octets_t &d)
{
	FILE *f = fopen(fn.c_str(), "wb"); if (!f) return false;
	bool ok = d.empty() || fwrite(&d[0], 1, d.size(), f) == d.size();
	return (fclose(f) == 0) && ok;
}

static void file_case(World &W)
{
	const Plan &p = W.plan;
	const Key &K = pick_key(p);
	bool text = p.get("text", 0) != 0;
	int fault = (int)(p.get("fault", 0) % 6);      // 0 none, 1 one byte replaced, 2 byte appended, 3 tail lost, 4 file gone, 5 byte inserted
	int64_t fa = p.get("fa", 0), fb = p.get("fb", 0);
	time_t Ts = TK + 86400;
	// document: lines of seeded length with LF / CRLF / CR CR LF endings, tabs, blanks, NUL and high octets
	tmcg_openpgp_octets_t doc;
	int style = (int)(p.get("doc", 0) % 5);
	size_t lines = (style == 0) ? 0 : 1 + W.S.gen.below(style == 4 ? 40 : 6);
	for (size_t l = 0; l < lines; l++)
	{
		size_t len = (style == 3 && l == 0) ? 19000 + W.S.gen.below(1200) : W.S.gen.below(style == 2 ? 200 : 30);
		for (size_t i = 0; i < len; i++)
		{
			unsigned c = (unsigned)W.S.gen.below(40);
			tmcg_openpgp_byte_t b = (c == 0) ? 0x00 : ((c == 1) ? '\t' : ((c == 2) ? ' ' : ((c == 3) ? '\r' : ((c == 4) ? 0xFF : (tmcg_openpgp_byte_t)(0x21 + W.S.gen.below(94))))));
			if (!text && c >= 30) b = (tmcg_openpgp_byte_t)W.S.gen.next();
			doc.push_back(b);
		}
		unsigned e = (unsigned)W.S.gen.below(8);
		if (l + 1 == lines && e == 0) break; // no final line ending
		if (e == 1 || e == 2) doc.push_back('\r');
		if (e == 2) doc.push_back('\r');
		doc.push_back('\n');
	}
	std::string fn = scratch_file();
	if (!put_file(fn, doc)) { W.res.cnt["probe.scratch_unwritable"]++; return; }
	// ---- signer node
	W.set_clock(0, Ts);
	tmcg_openpgp_octets_t trailer, hash, left, sigpkt;
	PGP::PacketSigPrepareDetachedSignature(text ? TMCG_OPENPGP_SIGNATURE_CANONICAL_TEXT_DOCUMENT : TMCG_OPENPGP_SIGNATURE_BINARY_DOCUMENT, K.algo, TMCG_OPENPGP_HASHALGO_SHA256, Ts, 0, "", K.keyid, trailer);
	bool hashed = text ? PGP::TextDocumentHash(fn, trailer, TMCG_OPENPGP_HASHALGO_SHA256, hash, left) : PGP::BinaryDocumentHash(fn, trailer, TMCG_OPENPGP_HASHALGO_SHA256, hash, left);
	if (!hashed) { W.res.cnt["probe.file_hash_refused"]++; remove(fn.c_str()); W.S.hist.add(H_RESULT, 99, (uint64_t)fault, text); return; } // e.g. a text line above the limit of 19994 characters
	gcry_error_t rc = sign_any(K, hash, TMCG_OPENPGP_HASHALGO_SHA256, trailer, left, sigpkt);
	if (rc) { W.res.cnt["probe.sign_failed"]++; remove(fn.c_str()); return; }
	// ---- the stored file is damaged between the two nodes
	tmcg_openpgp_octets_t d2 = doc; bool altered = false, gone = false; std::string what = "none";
	auto eol = [](tmcg_openpgp_byte_t b) { return b == '\r' || b == '\n'; };
	switch (fault)
	{
		case 1: if (!d2.empty())
			{
				// in text mode line endings are canonicalised: replace an octet that is neither CR nor LF by another such octet
				size_t off = (size_t)fa % d2.size(), tries = 0;
				while (text && eol(d2[off]) && tries < d2.size()) { off = (off + 1) % d2.size(); tries++; }
				if (text && eol(d2[off])) break;
				tmcg_openpgp_byte_t nb = (tmcg_openpgp_byte_t)(d2[off] ^ (1 << (fb % 8)));
				if (text && eol(nb)) nb = (tmcg_openpgp_byte_t)(d2[off] ^ 0x40);
				if (text && eol(nb)) break;
				d2[off] = nb; altered = true; what = "octet " + std::to_string(off) + " of " + std::to_string(d2.size()) + " replaced"; W.res.cnt["fault.file_byte_replaced"]++;
			} break;
		case 2: { tmcg_openpgp_byte_t nb = (tmcg_openpgp_byte_t)fb; if (text && nb == '\r') nb = 'x'; d2.push_back(nb); altered = true; what = "one octet appended"; W.res.cnt["fault.file_appended"]++; } break;
		case 3: if (!d2.empty())
			{
				size_t keep = (size_t)fa % d2.size(); bool significant = !text;
				for (size_t i = keep; i < d2.size(); i++) if (d2[i] != '\r') significant = true;
				d2.resize(keep); W.res.cnt["fault.file_tail_lost"]++;
				if (significant) { altered = true; what = "file cut to " + std::to_string(keep) + " of " + std::to_string(doc.size()) + " octets"; }
				else W.res.cnt["probe.file_cut_canonically_equal"]++;
			} break;
		case 4: gone = true; altered = true; what = "file removed"; W.res.cnt["fault.file_gone"]++; break;
		case 5: { size_t off = d2.empty() ? 0 : (size_t)fa % (d2.size() + 1); tmcg_openpgp_byte_t nb = (tmcg_openpgp_byte_t)fb; if (text && eol(nb)) nb = 'y';
				// an octet inserted in front of the CRs that end a line would be equal only if it were a CR itself
				d2.insert(d2.begin() + off, nb); altered = true; what = "octet inserted at " + std::to_string(off); W.res.cnt["fault.file_byte_inserted"]++; } break;
	}
	if (gone) remove(fn.c_str()); else if (!put_file(fn, d2)) { W.res.cnt["probe.scratch_unwritable"]++; return; }
	// ---- verifier node
	W.set_clock(1, Ts + 10);
	TMCG_OpenPGP_Signature *sig = NULL;
	bool parsed = PGP::SignatureParse(sigpkt, 0, sig), verified = false;
	if (parsed && sig) { verified = sig->Verify(K.sexp, fn, 0); delete sig; }
	remove(fn.c_str());
	W.S.hist.add(H_RESULT, (parsed ? 1 : 0) | (verified ? 2 : 0), (uint64_t)fault, text);
	std::string id = std::string(text ? "text" : "binary") + " document in a file, " + std::to_string(doc.size()) + " octets, key=" + K.name;
	if (!altered && fault == 0 && !verified) W.violate("C20", "file_signature_rejected", "signature made over a file does not verify over the same file; " + id);
	if (altered && verified) W.violate("C20", std::string("altered_file_verifies_") + (text ? "text" : "binary"), "signature still verifies although " + what + "; " + id);
}

// ---- cross-check with GnuPG (gpgv): the verifier node runs another implementation of RFC 4880
static std::string g_gpg_home; static int g_gpg_state = 0; // 0 not tried, 1 ready, 2 unavailable

static int run_cmd(const std::string &cmd, std::string &out)
{
	out.clear();
	FILE *f = popen(cmd.c_str(), "r"); if (!f) return -1;
	char buf[4096]; size_t n;
	while ((n = fread(buf, 1, sizeof(buf), f)) > 0) out.append(buf, n);
	int st = pclose(f);
	return (st == -1) ? -1 : (WIFEXITED(st) ? WEXITSTATUS(st) : 128);
}

static bool gpg_setup()
{
	if (g_gpg_state) return g_gpg_state == 1;
	std::string o;
	if (run_cmd("gpgv --version 2>/dev/null", o) != 0 || o.find("GnuPG") == std::string::npos) { g_gpg_state = 2; return false; }
	(void)mkdir("build", 0777); (void)mkdir("build/scratch", 0777);
	g_gpg_home = "build/scratch/gnupg-" + std::to_string((long)getpid());
	(void)mkdir(g_gpg_home.c_str(), 0700);
	tmcg_openpgp_octets_t ring;
	static const size_t idx[] = { 0, 1, 2, 4 };
	for (size_t k = 0; k < 4; k++)
	{
		tmcg_openpgp_octets_t all; std::string uid;
		build_keyblock(g_keys[idx[k]], TK + 3600, all, uid);
		ring.insert(ring.end(), all.begin(), all.end());
	}
	if (!put_file(g_gpg_home + "/ring.gpg", ring)) { g_gpg_state = 2; return false; }
	g_gpg_state = 1; return true;
}

static int gpgv_verify(const std::string &sigfile, const std::string &docfile, std::string &status)
{
	// 1 good signature, 0 bad signature, -1 anything else (error, key not found, ...)
	std::string cmd = "gpgv --homedir " + g_gpg_home + " --keyring ./" + g_gpg_home + "/ring.gpg --status-fd 1 " + sigfile + " " + docfile + " 2>/dev/null";
	(void)run_cmd(cmd, status);
	if (status.find("[GNUPG:] GOODSIG") != std::string::npos && status.find("[GNUPG:] VALIDSIG") != std::string::npos) return 1;
	if (status.find("[GNUPG:] BADSIG") != std::string::npos) return 0;
	return -1;
}

static void gnupg_case(World &W)
{
	const Plan &p = W.plan;
	const Key &K = pick_key(p);
	tmcg_openpgp_hashalgo_t H = HASHES[(size_t)p.get("hash", 0) % 3];  // SHA-256/384/512
	bool text = p.get("text", 0) != 0, fileapi = p.get("fileapi", 0) != 0;
	if (!gpg_setup()) { W.res.cnt["probe.gnupg_unavailable"]++; W.S.hist.add(H_RESULT, 77, 0, 0); return; }
	// document: printable lines with LF or CRLF endings (no stray CR, no trailing blanks: the canonical form of
	// such lines is the same in every implementation), or arbitrary octets in binary mode
	tmcg_openpgp_octets_t doc;
	size_t lines = (size_t)W.S.gen.below(6);
	for (size_t l = 0; l < lines; l++)
	{
		size_t len = W.S.gen.below(60);
		for (size_t i = 0; i < len; i++) doc.push_back(text ? (tmcg_openpgp_byte_t)(0x21 + W.S.gen.below(94)) : (tmcg_openpgp_byte_t)W.S.gen.next());
		if (l + 1 == lines && W.S.gen.below(4) == 0) break;
		if (text && W.S.gen.below(2)) doc.push_back('\r');
		doc.push_back('\n');
	}
	time_t Ts = TK + 86400 + (time_t)W.S.gen.below(1000);
	W.set_clock(0, Ts);
	std::string docfile = g_gpg_home + "/doc.bin", sigfile = g_gpg_home + "/sig.pgp";
	if (!put_file(docfile, doc)) { W.res.cnt["probe.scratch_unwritable"]++; return; }
	tmcg_openpgp_octets_t trailer, hash, left, sigpkt;
	PGP::PacketSigPrepareDetachedSignature(text ? TMCG_OPENPGP_SIGNATURE_CANONICAL_TEXT_DOCUMENT : TMCG_OPENPGP_SIGNATURE_BINARY_DOCUMENT, K.algo, H, Ts, 0, "", K.keyid, trailer);
	bool hashed;
	if (fileapi) hashed = text ? PGP::TextDocumentHash(docfile, trailer, H, hash, left) : PGP::BinaryDocumentHash(docfile, trailer, H, hash, left);
	else hashed = text ? PGP::TextDocumentHash(doc, trailer, H, hash, left) : PGP::BinaryDocumentHash(doc, trailer, H, hash, left);
	if (!hashed) { W.res.cnt["probe.file_hash_refused"]++; return; }
	if (sign_any(K, hash, H, trailer, left, sigpkt)) { W.res.cnt["probe.sign_failed"]++; return; }
	if (!put_file(sigfile, sigpkt)) { W.res.cnt["probe.scratch_unwritable"]++; return; }
	std::string st;
	int good = gpgv_verify(sigfile, docfile, st);
	std::string id = std::string(text ? "text" : "binary") + " document, " + (fileapi ? "file" : "octet") + " interface, " + std::to_string(doc.size()) + " octets, key=" + K.name + " hash=" + std::to_string((int)H);
	W.res.cnt["probe.gnupg_verifications"]++;
	if (good != 1) { W.violate("C20", "gnupg_rejects_signature", "gpgv does not report a good signature for a signature made by the library; " + id + "; status: " + st.substr(0, 300)); return; }
	// the same signature over an altered document must be bad in GnuPG too
	int bad = -2;
	if (!doc.empty())
	{
		tmcg_openpgp_octets_t d2 = doc; size_t off = (size_t)p.get("fa", 0) % d2.size(), tries = 0;
		while (text && (d2[off] == '\r' || d2[off] == '\n') && tries < d2.size()) { off = (off + 1) % d2.size(); tries++; }
		if (!(text && (d2[off] == '\r' || d2[off] == '\n')))
		{
			d2[off] = text ? (tmcg_openpgp_byte_t)(d2[off] == 'x' ? 'y' : 'x') : (tmcg_openpgp_byte_t)(d2[off] ^ 0x10);
			if (put_file(docfile, d2))
			{
				bad = gpgv_verify(sigfile, docfile, st); W.res.cnt["fault.file_byte_replaced"]++;
				if (bad == 1) W.violate("C20", "gnupg_accepts_altered_document", "gpgv reports a good signature over an altered document; " + id);
			}
		}
	}
	W.S.hist.add(H_RESULT, (uint64_t)(good + 2), (uint64_t)(bad + 2), text);
}

// ---- session keys encrypted to a public key (PKESK): RSA, ElGamal, ECDH
static void pkenc_case(World &W)
{
	const Plan &p = W.plan;
	int alg = (int)(p.get("key", 0) % 3);          // 0 RSA, 1 ElGamal, 2 ECDH (NIST P-256)
	int fault = (int)(p.get("fault", 0) % 5);      // 0 none, 1 bit flipped in the encrypted session key, 2 other recipient key (RSA), 3 body truncated, 4 ECDH: other fingerprint / KDF parameters
	int64_t fa = p.get("fa", 0), fb = p.get("fb", 0);
	W.set_clock(0, TK + 86400);
	// the message: literal data, MDC, SEIPD under a fresh session key
	tmcg_openpgp_octets_t data; make_doc(W, 2 + (int)(p.get("doc", 0) % 2), data);
	tmcg_openpgp_octets_t lit, prefix, enc, hash, mdc, mdc_hashing, litmdc, seipd;
	tmcg_openpgp_secure_octets_t seskey;
	PGP::PacketLitEncode(data, lit);
	if (PGP::SymmetricEncryptAES256(lit, seskey, prefix, true, enc)) { W.res.cnt["probe.encrypt_failed"]++; return; }
	enc.clear();
	mdc_hashing.insert(mdc_hashing.end(), prefix.begin(), prefix.end()); mdc_hashing.insert(mdc_hashing.end(), lit.begin(), lit.end());
	mdc_hashing.push_back(0xD3); mdc_hashing.push_back(0x14);
	PGP::HashCompute(TMCG_OPENPGP_HASHALGO_SHA1, mdc_hashing, hash); PGP::PacketMdcEncode(hash, mdc);
	litmdc = lit; litmdc.insert(litmdc.end(), mdc.begin(), mdc.end());
	tmcg_openpgp_secure_octets_t sk0 = seskey; seskey.clear();
	if (PGP::SymmetricEncryptAES256(litmdc, seskey, prefix, false, enc)) { W.res.cnt["probe.encrypt_failed"]++; return; }
	PGP::PacketSeipdEncode(enc, seipd);
	// the session key encrypted to the recipient
	tmcg_openpgp_octets_t keyid(8, 0), pkesk, fpr(20, 0x5A);
	gcry_mpi_t me = gcry_mpi_new(2048), gk = gcry_mpi_new(2048), myk = gcry_mpi_new(2048), ecepk = gcry_mpi_new(1024);
	size_t rkwlen = 0; tmcg_openpgp_byte_t rkw[256]; memset(rkw, 0, sizeof(rkw));
	gcry_error_t rc;
	const gcry_sexp_t rsa = g_keys[0].sexp;
	if (alg == 0) { rc = PGP::AsymmetricEncryptRSA(seskey, rsa, me); if (!rc) PGP::PacketPkeskEncode(keyid, me, pkesk); }
	else if (alg == 1) { rc = PGP::AsymmetricEncryptElgamal(seskey, g_elg, gk, myk); if (!rc) PGP::PacketPkeskEncode(keyid, gk, myk, pkesk); }
	else { rc = PGP::AsymmetricEncryptECDH(seskey, g_ecdh, TMCG_OPENPGP_HASHALGO_SHA256, TMCG_OPENPGP_SKALGO_AES128, "NIST P-256", fpr, ecepk, rkwlen, rkw); if (!rc) PGP::PacketPkeskEncode(keyid, ecepk, rkwlen, rkw, pkesk); }
	gcry_mpi_release(me); gcry_mpi_release(gk); gcry_mpi_release(myk); gcry_mpi_release(ecepk);
	if (rc) { W.violate("C20", "pk_encrypt_failed", "encrypting a session key to a valid public key failed, algorithm " + std::to_string(alg) + " rc=" + std::to_string((int)gcry_err_code(rc))); return; }
	// ---- artefact channel
	bool must_fail = false; std::string what = "none";
	tmcg_openpgp_octets_t body; tmcg_openpgp_byte_t tag = PGP::PacketBodyExtract(pkesk, 0, body);
	if (tag != 1 || body.size() < 12) { W.violate("C20", "own_pkesk_unreadable", "emitted PKESK packet cannot be re-read"); return; }
	const size_t fixed = 10; // version, key ID, algorithm
	if (fault == 1)
	{
		// only octets that carry the value: the two-octet bit counts of the MPIs (and the length octet of the wrapped
		// key) can change without changing the value, and the lengths depend on libgcrypt-internal randomness
		std::vector<std::pair<size_t, size_t> > pay; size_t o = fixed; int nm = (alg == 1) ? 2 : 1;
		for (int q = 0; q < nm && o + 2 <= body.size(); q++) { size_t nb = ((((size_t)body[o] << 8) + body[o + 1]) + 7) / 8; if (o + 2 + nb > body.size()) break; if (nb) pay.push_back(std::make_pair(o + 2, nb)); o += 2 + nb; }
		if (alg == 2 && o + 1 < body.size()) pay.push_back(std::make_pair(o + 1, body.size() - o - 1));
		size_t total = 0; for (size_t q = 0; q < pay.size(); q++) total += pay[q].second;
		if (total)
		{
			size_t r = (size_t)fa % total, off = 0; for (size_t q = 0; q < pay.size(); q++) { if (r < pay[q].second) { off = pay[q].first + r; break; } r -= pay[q].second; }
			body[off] ^= (tmcg_openpgp_byte_t)(1 << (fb % 8)); repacket(1, body, pkesk); must_fail = true; what = "bit flipped in the encrypted session key"; W.res.cnt["fault.art_flip_ciphertext"]++;
		}
	}
	else if (fault == 3) { size_t keep = (size_t)fa % body.size(); body.resize(keep); repacket(1, body, pkesk); must_fail = true; what = "PKESK body truncated to " + std::to_string(keep); W.res.cnt["fault.art_trunc_reencoded"]++; }
	tmcg_openpgp_octets_t wire = pkesk; wire.insert(wire.end(), seipd.begin(), seipd.end());
	// ---- recipient node
	W.set_clock(1, TK + 86400 + 10);
	TMCG_OpenPGP_Message *msg = NULL;
	bool parsed = PGP::MessageParse(wire, 0, msg);
	bool got = false; tmcg_openpgp_secure_octets_t sk; tmcg_openpgp_octets_t dec, content; bool decrypted = false;
	if (parsed && msg && msg->PKESKs.size() == 1)
	{
		const TMCG_OpenPGP_PKESK *esk = msg->PKESKs[0];
		gcry_error_t dr = GPG_ERR_GENERAL;
		if (alg == 0 && esk->pkalgo == TMCG_OPENPGP_PKALGO_RSA)
		{
			gcry_sexp_t rk = rsa;
			if (fault == 2) { rk = g_keys[3].sexp; must_fail = true; what = "decrypted with another recipient key"; W.res.cnt["fault.wrong_key"]++; }
			dr = PGP::AsymmetricDecryptRSA(esk->me, rk, sk);
		}
		else if (alg == 1 && esk->pkalgo == TMCG_OPENPGP_PKALGO_ELGAMAL) dr = PGP::AsymmetricDecryptElgamal(esk->gk, esk->myk, g_elg, sk);
		else if (alg == 2 && esk->pkalgo == TMCG_OPENPGP_PKALGO_ECDH)
		{
			tmcg_openpgp_octets_t f2 = fpr; tmcg_openpgp_hashalgo_t kh = TMCG_OPENPGP_HASHALGO_SHA256;
			if (fault == 4) { if (fb & 1) f2[(size_t)fa % f2.size()] ^= 1; else kh = TMCG_OPENPGP_HASHALGO_SHA512; must_fail = true; what = "ECDH key derivation with another recipient fingerprint or hash"; W.res.cnt["fault.wrong_kdf_param"]++; }
			dr = PGP::AsymmetricDecryptECDH(esk->ecepk, g_ecdh, esk->rkwlen, esk->rkw, kh, TMCG_OPENPGP_SKALGO_AES128, "NIST P-256", f2, sk);
		}
		got = (dr == 0);
		if (got) { decrypted = msg->Decrypt(sk, 0, dec); }
		if (decrypted)
		{
			TMCG_OpenPGP_Message *inner = NULL;
			if (PGP::MessageParse(dec, 0, inner) && inner) content = inner->literal_data;
			if (inner) delete inner;
		}
	}
	if (msg) delete msg;
	// RSA and ElGamal give back algorithm || key || checksum, ECDH algorithm || key (Message::Decrypt takes both forms)
	bool same_key = got && (sk.size() == seskey.size() || sk.size() + 2 == seskey.size()) && std::equal(sk.begin(), sk.end(), seskey.begin());
	bool plaintext_back = decrypted && content == data;
	// (how far a damaged packet gets - parsed, decrypted to something - depends on lengths that libgcrypt's own
	// randomness decides; only what is judged enters the fingerprint)
	W.S.hist.add(H_RESULT, (must_fail ? 0 : ((parsed ? 1 : 0) | (got ? 2 : 0))) | (same_key ? 4 : 0) | (plaintext_back ? 8 : 0), (uint64_t)fault, (uint64_t)alg);
	std::string id = std::string(alg == 0 ? "RSA" : (alg == 1 ? "ElGamal" : "ECDH P-256")) + ", " + std::to_string(data.size()) + " octets";
	if (!must_fail)
	{
		if (!same_key) W.violate("C20", "pk_session_key_lost", "session key encrypted to a public key does not come back from decryption; " + id);
		else if (!plaintext_back) W.violate("C20", "pk_message_not_decrypted", "message encrypted to a public key does not decrypt to the original plaintext; " + id);
	}
	else if (plaintext_back) W.violate("C20", "pk_tampered_message_decrypts", "the original plaintext came back although " + what + "; " + id);
	else if (same_key && fault != 3) W.violate("C20", "pk_tampered_session_key_recovered", "the session key was recovered although " + what + "; " + id);
}

// ---- a private key block stored under a passphrase (disk artefact): export, damage, import, use
static void prvkey_case(World &W)
{
	const Plan &p = W.plan;
	const Key &K = g_keys[2]; // DSA: the packet encoder for secret keys takes (p, q, g, y, x)
	int fault = (int)(p.get("fault", 0) % 5); // 0 none, 1 wrong passphrase, 2 bit flipped in the secret-key packet, 3 packet body truncated (re-encoded), 4 stored file cut
	int64_t fa = p.get("fa", 0), fb = p.get("fb", 0);
	time_t Ts = TK + 86400;
	W.set_clock(0, Ts);
	std::string pw = "correct horse " + std::to_string((long)(p.get("fc", 0) % 1000));
	tmcg_openpgp_secure_string_t pass, pass2;
	for (size_t i = 0; i < pw.size(); i++) pass += pw[i];
	pass2 = pass;
	gcry_mpi_t dp = NULL, dq = NULL, dg = NULL, dy = NULL, dx = NULL;
	if (gcry_sexp_extract_param(K.sexp, NULL, "pqgyx", &dp, &dq, &dg, &dy, &dx, NULL)) { W.res.cnt["probe.key_extract_failed"]++; return; }
	tmcg_openpgp_octets_t sec, uid, trailer, hash, left, sigpkt, flags, empty, all;
	PGP::PacketSecEncode(TK, TMCG_OPENPGP_PKALGO_DSA, dp, dq, dg, dy, dx, pass, sec);
	gcry_mpi_release(dp); gcry_mpi_release(dq); gcry_mpi_release(dg); gcry_mpi_release(dy); gcry_mpi_release(dx);
	std::string uidstr = "Stored <stored@example.org>";
	PGP::PacketUidEncode(uidstr, uid);
	flags.push_back(0x01 | 0x02);
	PGP::PacketSigPrepareSelfSignature(TMCG_OPENPGP_SIGNATURE_POSITIVE_CERTIFICATION, K.algo, TMCG_OPENPGP_HASHALGO_SHA256, Ts, 0, flags, K.keyid, false, trailer);
	PGP::CertificationHash(K.pub_hashing, uidstr, empty, trailer, TMCG_OPENPGP_HASHALGO_SHA256, hash, left);
	if (sign_any(K, hash, TMCG_OPENPGP_HASHALGO_SHA256, trailer, left, sigpkt)) { W.res.cnt["probe.sign_failed"]++; return; }
	all = sec; all.insert(all.end(), uid.begin(), uid.end()); all.insert(all.end(), sigpkt.begin(), sigpkt.end());
	// ---- the stored block is damaged (or the operator mistypes the passphrase)
	bool must_fail = false, record_only = false; std::string what = "none";
	tmcg_openpgp_octets_t wire = all;
	tmcg_openpgp_octets_t body; tmcg_openpgp_byte_t tag = PGP::PacketBodyExtract(sec, 0, body);
	if (tag != 5 || body.size() < 40) { W.violate("C20", "own_seckey_unreadable", "emitted secret-key packet cannot be re-read"); return; }
	if (fault == 1) { pass2 += 'x'; must_fail = true; what = "wrong passphrase"; W.res.cnt["fault.wrong_passphrase"]++; }
	else if (fault == 2 || fault == 3)
	{
		if (fault == 2) { size_t off = (size_t)fa % body.size(); body[off] ^= (tmcg_openpgp_byte_t)(1 << (fb % 8)); what = "bit flipped in the secret-key packet at " + std::to_string(off) + " of " + std::to_string(body.size()); W.res.cnt["fault.art_flip_any"]++; }
		else { body.resize((size_t)fa % body.size()); what = "secret-key packet truncated to " + std::to_string(body.size()); W.res.cnt["fault.art_trunc_reencoded"]++; }
		tmcg_openpgp_octets_t sec2; repacket(5, body, sec2);
		wire = sec2; wire.insert(wire.end(), uid.begin(), uid.end()); wire.insert(wire.end(), sigpkt.begin(), sigpkt.end());
		must_fail = true;
	}
	else if (fault == 4)
	{
		// a cut behind the complete secret-key packet leaves the secret material intact: only a cut inside it must fail
		wire.resize((size_t)fa % wire.size()); must_fail = wire.size() < sec.size(); record_only = !must_fail;
		what = "stored block cut to " + std::to_string(wire.size()) + " octets"; W.res.cnt["fault.art_trunc"]++;
	}
	// ---- restart: import and use the key
	W.set_clock(1, Ts + 10);
	TMCG_OpenPGP_Prvkey *prv = NULL;
	bool parsed = PGP::PrivateKeyBlockParse(wire, 0, pass2, prv);
	bool usable = false;
	if (parsed && prv)
	{
		// the restored key signs; the signature must verify under the public key
		tmcg_openpgp_octets_t doc, tr2, h2, l2; make_doc(W, 2, doc);
		PGP::PacketSigPrepareDetachedSignature(TMCG_OPENPGP_SIGNATURE_BINARY_DOCUMENT, K.algo, TMCG_OPENPGP_HASHALGO_SHA256, Ts, 0, "", K.keyid, tr2);
		PGP::BinaryDocumentHash(doc, tr2, TMCG_OPENPGP_HASHALGO_SHA256, h2, l2);
		gcry_mpi_t r = gcry_mpi_new(2048), s2 = gcry_mpi_new(2048);
		if (!PGP::AsymmetricSignDSA(h2, prv->private_key, r, s2) && !PGP::AsymmetricVerifyDSA(h2, K.sexp, r, s2)) usable = true;
		gcry_mpi_release(r); gcry_mpi_release(s2);
		delete prv;
	}
	W.S.hist.add(H_RESULT, (record_only ? 0 : ((must_fail ? 0 : (parsed ? 1 : 0)) | (usable ? 2 : 0))), (uint64_t)fault, 0);
	if (record_only) W.res.cnt[usable ? "probe.cut_behind_secret_packet_usable" : "probe.cut_behind_secret_packet_refused"]++;
	else if (!must_fail) { if (!usable) W.violate("C20", "stored_private_key_lost", std::string("a private key block exported under a passphrase ") + (parsed ? "imports but does not sign verifiably" : "does not import again")); }
	else if (usable && fault != 2) W.violate("C20", "damaged_private_key_usable", "the private key was restored and signs although " + what);
	else if (usable) W.res.cnt["probe.flip_outside_secret_material"]++; // e.g. a bit of the creation time: another key ID, same secret
}

} // namespace

static bool p_is_c20(const Tier &tier) { return tier.property.empty() || tier.property == "C20"; }

static Plan pgp_generate(uint64_t seed, const Tier &tier)
{
	Plan p; p.seed = seed; p.property = tier.property.empty() ? "C20" : tier.property;
	Rng g(derive(seed, 1));
	bool c12 = (p.property == "C12");
	unsigned r = (unsigned)g.below(10);
	int kind = (r < 5) ? 0 : ((r < 7) ? 1 : ((r < 8) ? 2 : 3));
	if (c12 && g.chance(1, 2)) kind = 3;
	else if (!c12 && g.chance(1, 6)) kind = 4;
	else if (!c12 && g.chance(1, 30)) kind = 5;
	else if (g.chance(1, 8)) kind = 6;
	else if (g.chance(1, 12)) kind = 7;
	p.cfg["kind"] = kind;
	p.cfg["doc"] = (int64_t)g.below(6);
	p.cfg["fa"] = (int64_t)g.below(1 << 20); p.cfg["fb"] = (int64_t)g.below(8);
	bool faults = tier.opt.count("nofaults") == 0;
	if (kind == 0)
	{
		p.cfg["key"] = (int64_t)g.below(4); p.cfg["hash"] = g.chance(1, 6) ? (int64_t)g.range(3, 4) : (int64_t)g.below(3);
		// clock faults: boundaries of the validity rules
		static const long exps[] = { 0, 0, 1, 60, 3600, 86400 * 365 };
		long E = exps[g.below(6)]; p.cfg["expiry"] = E;
		static const long tsoffs[] = { 86400, 86400, 1, 0, -1, -86400, 86400 * 400 };
		p.cfg["ts_off"] = tsoffs[g.below(7)];
		long nows[] = { 10, 0, -1, -25 * 3600, -25 * 3600 - 1, -25 * 3600 + 1, E - 1, E, E + 1, 86400 * 30, -3600 };
		p.cfg["now_off"] = nows[g.below(11)];
		p.cfg["jump"] = g.chance(1, 8) ? (g.chance(1, 2) ? 86400 * 800 : -86400 * 800) : 0;
		unsigned f = (unsigned)g.below(16);
		p.cfg["fault"] = !faults ? 0 : (c12 ? (int64_t)(6 + g.below(3)) : (f < 5 ? 0 : (int64_t)(1 + (f - 5) % 9)));
	}
	else if (kind == 7)
	{
		p.cfg["fb"] = (int64_t)g.below(8); p.cfg["fc"] = (int64_t)g.below(1000);
		p.cfg["fault"] = !faults ? 0 : (c12 ? (int64_t)g.range(2, 4) : (g.chance(1, 3) ? 0 : (int64_t)g.range(1, 4)));
	}
	else if (kind == 6)
	{
		p.cfg["key"] = (int64_t)g.below(3); p.cfg["fb"] = (int64_t)g.below(256);
		p.cfg["fault"] = !faults ? 0 : (c12 ? (g.chance(1, 2) ? 1 : 3) : (g.chance(1, 3) ? 0 : (int64_t)g.range(1, 4)));
	}
	else if (kind == 5)
	{
		p.cfg["key"] = (int64_t)g.below(4); p.cfg["hash"] = (int64_t)g.below(3); p.cfg["text"] = g.chance(1, 2) ? 1 : 0; p.cfg["fileapi"] = g.chance(1, 2) ? 1 : 0;
	}
	else if (kind == 4)
	{
		p.cfg["key"] = (int64_t)g.below(4); p.cfg["text"] = g.chance(2, 3) ? 1 : 0; p.cfg["doc"] = (int64_t)g.below(5); p.cfg["fb"] = (int64_t)g.below(256);
		p.cfg["fault"] = !faults ? 0 : (g.chance(1, 4) ? 0 : (int64_t)g.range(1, 5));
	}
	else if (kind == 3)
	{
		p.cfg["key"] = (int64_t)g.below(4); p.cfg["art"] = (int64_t)g.below(3); p.cfg["fc"] = (int64_t)g.below(256); p.cfg["fb"] = (int64_t)g.below(1 << 20);
		p.cfg["armor"] = g.chance(1, 2) ? 0 : (!faults ? 1 : (int64_t)g.range(1, 7));
		p.cfg["subkey"] = g.chance(1, 2); p.cfg["edits"] = (faults && g.chance(1, 3)) ? (int64_t)g.range(1, 4) : 0;
		p.cfg["recompose"] = (faults && g.chance(1, 3)) ? 1 : 0;
		p.cfg["fault"] = !faults ? 0 : (int64_t)g.below(7);
	}
	else if (kind == 1) { unsigned f = (unsigned)g.below(12); p.cfg["fault"] = !faults ? 0 : (c12 ? (g.chance(1, 2) ? 2 : 6) : (f < 4 ? 0 : (int64_t)(1 + (f - 4) % 6))); }
	else
	{
		p.cfg["aead"] = (int64_t)g.below(2); p.cfg["chunk"] = (int64_t)g.below(3); { static const int big[] = { 254, 255, 256, 257, 258, 300 }; p.cfg["nchunks"] = g.chance(1, 10) ? (int64_t)big[g.below(6)] : (int64_t)g.below(4); }
		unsigned f = (unsigned)g.below(14); p.cfg["fault"] = !faults ? 0 : (f < 4 ? 0 : (int64_t)(1 + (f - 4) % 7));
	}
	return p;
}

static void pgp_enumerate(const Tier &tier, std::vector<Plan> &out)
{
	// truncation of the signature packet body at every offset, length re-encoded (structure-aware: the
	// plain truncation of an artefact is refused by the outer framing long before the sub-parsers run)
	for (int key = 0; key < 3; key++)
		for (size_t keep = 0; keep < (tier.thorough ? 700u : 330u); keep++)
		{
			Plan p; p.seed = 7000000 + key * 1000 + keep; p.property = tier.property.empty() ? "C20" : tier.property;
			p.cfg["kind"] = 0; p.cfg["key"] = key; p.cfg["hash"] = 0; p.cfg["doc"] = 1; p.cfg["expiry"] = 0; p.cfg["ts_off"] = 86400; p.cfg["now_off"] = 10;
			p.cfg["fault"] = 6; p.cfg["fa"] = (int64_t)keep; p.cfg["fb"] = 0; p.cfg["enumerated"] = 1;
			out.push_back(p);
		}
	if (p_is_c20(tier))
		for (int key = 0; key < 4; key++) for (int h = 0; h < 3; h++) for (int tx = 0; tx < 2; tx++) for (int fi = 0; fi < 2; fi++)
		{
			Plan p; p.seed = 9000000 + key * 1000 + h * 100 + tx * 10 + fi; p.property = "C20";
			p.cfg["kind"] = 5; p.cfg["key"] = key; p.cfg["hash"] = h; p.cfg["text"] = tx; p.cfg["fileapi"] = fi; p.cfg["fa"] = 7; p.cfg["enumerated"] = 1;
			out.push_back(p);
		}
	// every packet of a key block, a detached signature and a message: body truncated at offsets 0..N
	for (int art = 0; art < 3; art++)
		for (int key = 0; key < 3; key += (art == 0 ? 1 : 3))
			for (size_t pkt = 0; pkt < (art == 0 ? 3u : 1u); pkt++)
				for (size_t keep = 0; keep < (tier.thorough ? 600u : 300u); keep++)
				{
					Plan p; p.seed = 8000000 + art * 100000 + key * 10000 + pkt * 1000 + keep; p.property = tier.property.empty() ? "C20" : tier.property;
					p.cfg["kind"] = 3; p.cfg["art"] = art; p.cfg["key"] = key; p.cfg["fault"] = 1; p.cfg["fa"] = (int64_t)pkt; p.cfg["fb"] = (int64_t)keep; p.cfg["fc"] = 0; p.cfg["doc"] = 2; p.cfg["enumerated"] = 1;
					out.push_back(p);
				}
}

static RunResult pgp_execute(const Plan &plan)
{
	World W(plan);
	int kind = (int)(plan.get("kind", 0) % 8);
	if (kind == 0) signature_case(W); else if (kind == 1) message_case(W); else if (kind == 2) aead_case(W); else if (kind == 3) artefact_case(W); else if (kind == 4) file_case(W); else if (kind == 5) gnupg_case(W); else if (kind == 6) pkenc_case(W); else prvkey_case(W);
	W.res.cnt[kind == 0 ? "probe.signature_cases" : (kind == 1 ? "probe.seipd_cases" : (kind == 2 ? "probe.aead_cases" : (kind == 3 ? "probe.artefact_cases" : (kind == 4 ? "probe.file_cases" : (kind == 5 ? "probe.gnupg_cases" : (kind == 6 ? "probe.pkenc_cases" : "probe.prvkey_cases"))))))]++;
	W.res.fingerprint = W.S.hist.h ^ derive(plan.seed, 3); W.res.steps = 1; W.res.sim_ms = 0;
	W.res.nontrivial = plan.get("fault", 0) != 0 || plan.get("now_off", 10) != 10 || plan.get("jump", 0) != 0;
	return W.res;
}

int main(int argc, char **argv)
{
	Scenario sc;
	sc.name = "pgp";
	sc.real_components = "src/CallasDonnerhackeFinneyShawThayerRFC4880.cc: signature preparation, document hashing, RSA/DSA/ECDSA sign and verify wrappers, packet encoders, SignatureParse/MessageParse and the sub-packet decoders, TMCG_OpenPGP_Signature::CheckValidity/VerifyData, CFB+MDC and AEAD (OCB/EAX) encryption and decryption, TMCG_OpenPGP_Message::Decrypt, AsymmetricEncrypt/Decrypt RSA, Elgamal and ECDH (KDFCompute, AES key wrap), PacketPkeskEncode and its decoder, PublicKeyBlockParse with TMCG_OpenPGP_Pubkey::CheckSelfSignatures (key + user ID + positive certification built with PacketSigPrepareSelfSignature/CertificationHash); libgcrypt";
	sc.stub_components = "the wall clock of the two nodes (per-node simulated clock, jumps), the artefact channel between signer/encryptor and verifier/decryptor; keys are fixed test keys; libgcrypt-internal randomness (DSA/ECDSA nonces, RSA blinding) is outside the seam, so only outcomes enter the fingerprint; document files are real files under build/scratch (no seam for std::ifstream), GnuPG is the installed gpgv binary run as a child process (cases are skipped and counted as probe.gnupg_unavailable when it is missing)";
	sc.rule = "seeded: detached binary signatures (RSA-2048, DSA-2048, ECDSA P-256, Ed25519) x hash (3 strong, 2 weak) x documents (empty .. 20 kB, mixed line endings) x verifier clock at the boundaries of every validity rule (creation-1, creation, expiry-1, expiry, expiry+1, 25 h +-1 s ahead, signature older than key, clock jump between the checks) against a reference model of the rules, x artefact faults (bit flip in a hashed field / signature value / unhashed area / anywhere, document altered, other key, body truncated with re-encoded length, artefact truncated); SEIPD+MDC messages and AEAD (OCB, EAX; chunk 64..256; lengths around chunk boundaries) x {ciphertext flip, truncation, tag dropped, chunks exchanged or removed, associated data or nonce altered, wrong session key, unprotected packet}; enumerated: signature-packet body truncated at every offset for three key types; distinct = outcome fingerprint per case; whole artefacts (key block = key, user ID, certification; detached signature; SEIPD message) split into packets and damaged structurally: body of any packet truncated / extended with re-encoded length, bit flipped, packet dropped / duplicated / exchanged, then PublicKeyBlockParse+CheckSelfSignatures / SignatureParse+VerifyData / MessageParse+Decrypt; enumerated: every body length 0..299 (thorough 0..599) of every packet of these artefacts; documents in files: the signer hashes a file (text or binary signature; generated lines with LF / CRLF / CR CR LF endings, tabs, NUL and high octets, lines around the 19994-character limit), the stored file loses its tail, gets an octet replaced, inserted or appended, or disappears, the verifier runs Verify(key, filename) - in text mode only damage that changes the canonical form is asserted; cross-check with GnuPG (gpgv 2.2, a second RFC 4880 implementation as verifier node): signatures by the RSA, DSA, ECDSA P-256 and Ed25519 test keys with SHA-256/384/512 over text and binary documents through the octet and the file interface must be GOODSIG in gpgv and BADSIG after one octet of the document changed (enumerated: 4 keys x 3 hashes x 2 modes x 2 interfaces); session keys encrypted to a public key (RSA-2048, ElGamal-2048, ECDH NIST P-256 with KDF SHA-256 / AES-128 key wrap): PKESK + SEIPD message, MessageParse, asymmetric decryption, Message::Decrypt, plaintext compared; faults: bit flipped in the encrypted session key, PKESK body truncated, another RSA recipient key, ECDH key derivation with another recipient fingerprint or hash; a well-formed sub-packet (creation time, expiration, key expiration, key flags, revocable) appended to the unhashed area of a signature must not change what the hashed fields say; ASCII armor around the artefacts (ArmorEncode / ArmorDecode): untouched armor must decode to the same octets; the armor text is cut, gets a character replaced, a line deleted or duplicated, a radix-64 character of the body or of the checksum replaced (must not decode to other octets; damage that only turns the optional checksum into trailing octets is not judged), then the decoded octets go through the parsers as before";
	sc.generate = pgp_generate; sc.execute = pgp_execute; sc.enumerate = pgp_enumerate; sc.worker_init = pgp_init;
	return runner_main(argc, argv, sc);
}
